"""C09 - grow-only containers: append-only, all-or-nothing, never shared.

A case is a *history*: a start FrameGO (or IndexGO / IndexHierarchyGO), then a sequence of steps, each a
growth call (valid, duplicate, partially duplicate, wrong length, unaligned index) on one live
grow-only container, or a derivation that adds a new live container, or a cache-materialising read.
After every step every live container is snapshotted:
  oracle  - a grown container keeps its old content as a prefix and gets the new labels in order;
            a failed call leaves it exactly as it was and usable (labels and data in step, every
            column readable); no other live container changes;
  model   - the FrameGO model (lean/SFModel/FrameGO.lean) predicts ok/err and the label list after
            each growth call of the start container; `Unique` is evaluated by the model on the observed
            identity graph of mutable objects after each step.
"""
from __future__ import annotations


class _IB(type):
    def __instancecheck__(cls, o):
        from static_frame.core.index_base import IndexBase as B
        return isinstance(o, B)


class IndexBase(metaclass=_IB):
    pass

import numpy as np

from check import Failure
from sfv import gen
from sfv.canon import tok, untok, err_cat, dtype_tok, array_toks, frame_snapshot, series_snapshot, index_snapshot
from sfv.tbwire import Interner, tb_wire_from_blocks

TARGETS = ['SFModel.Props.C09']
THEOREMS = ['SF.C09.index_append_spec', 'SF.C09.index_extend_atomic', 'SF.C09.index_extend_old_not_atomic',
            'SF.C09.frame_extend_old_breaks_lockstep', 'SF.C09.grow_atomic', 'SF.C09.grow_appends_only',
            'SF.C09.step_inv', 'SF.C09.lockstep_history', 'SF.C09.no_shared_growth', 'SF.C09.uniqueB_sound']
PARTIAL = []
CORR_ONLY = ['IndexHierarchyGO append/extend histories and all derivations (to_frame*, selection, relabel, sort, reindex, operators, set_index, transpose, ...) are covered by the snapshot oracle and the identity-graph check; the ownership rules of each derivation are not individually modelled']
RULE = ('seeded histories of 4..10 steps over a pool of live containers: growth calls (setitem / extend(Series|Frame) / extend_items / '
        'IndexGO.append|extend / IndexHierarchyGO.append|extend with valid, duplicate, partially duplicate, wrong-length, unaligned arguments) '
        'interleaved with derivations and cache reads; non-trivial = at least one failing growth call or one derivation followed by a growth call; '
        'distinct = distinct history JSON')
TRUSTED = ['object identity (id()) of mutable sub-objects as the ownership graph']
ASSUMPTIONS = ['value evaluation of a growth call (reindexing a Series/Frame to the index) is outside the model: the model receives the evaluated value']
BUDGET = {'quick': 200, 'thorough': 1500}

GROW = ['setitem_ok', 'setitem_dup', 'setitem_len', 'setitem_series', 'setitem_scalar', 'extend_series', 'extend_series_dup',
        'extend_frame', 'extend_frame_partdup', 'extend_frame_unaligned', 'extend_items', 'extend_items_partdup', 'extend_items_badlen',
        'extend_empty_frame']
DERIVE = ['to_frame', 'to_frame_go', 'to_frame_he', 'iloc', 'getitem', 'relabel', 'rename', 'sort_columns', 'sort_index', 'reindex',
          'add1', 'T', 'set_index', 'fillna', 'astype', 'drop', 'assign', 'FrameGO(f)', 'Frame(f)', 'columns_copy', 'group_first',
          'copy', 'deepcopy', 'pickle',
          # selections / drops that keep the columns as they are (the result must still own its columns), and any operation of the
          # shared catalogue (sfv.ops) applied to the growing frame
          'drop_rows', 'iloc_rows', 'loc_rows', 'head', 'tail', 'cat', 'cat', 'cat']
READ = ['values', 'dtypes', 'columns_values', 'loc_last', 'display', 'positions']
IX_GROW = ['append_ok', 'append_dup', 'extend_ok', 'extend_partdup', 'extend_selfdup']
IX_DERIVE = ['Index(ix)', 'copy', 'IndexGO(ix)', 'iloc', 'relabel', 'values', 'union', 'to_series', 'label_widths']


def nontrivial(c):
    kinds = [s[0] for s in c['steps']]
    if c['k'] == 'ih3':
        return len(kinds) >= 2
    return any(k.endswith(('dup', 'len', 'badlen', 'unaligned')) for k in kinds) or \
        any(a in DERIVE + IX_DERIVE and any(b in GROW + IX_GROW for b in kinds[i + 1:]) for i, a in enumerate(kinds))


IH3_ROUTES = ['from_product', 'from_labels', 'from_tree', 'product_copy', 'frame_columns_product', 'frame_columns_labels']


def ih3_cases(rng, count):
    """Depth-3 grow-only hierarchies used DIRECTLY as built (from_product builds one node object per depth and relies on the
    constructor to un-share it), bare or as the columns of a FrameGO, grown under the LAST outer label, under a new outer label,
    with duplicates and with labels that are not in tree order; the reference is a plain list of tuples."""
    for _ in range(count):
        lv = [['a', 'b', 'c'][:rng.randint(2, 3)], [1, 2, 3][:rng.randint(1, 3)], ['x', 'y'][:rng.randint(1, 2)]]
        steps = []
        for _ in range(rng.randint(2, 6)):
            steps.append([rng.choice(['last_leaf', 'last_leaf', 'last_mid', 'new_outer', 'dup', 'closed', 'read', 'extend']), rng.randint(0, 10 ** 6)])
        yield {'k': 'ih3', 'levels': lv, 'route': rng.choice(IH3_ROUTES), 'steps': steps}


def run_ih3_history(ctx, c):
    import itertools
    import static_frame as sf
    fails = []
    lv = c['levels']
    ref = [tuple(t) for t in itertools.product(*lv)]
    route = c['route']
    ctx.count('ih3_route_' + route)
    frame = None
    if route in ('from_product', 'product_copy'):
        ih = sf.IndexHierarchyGO.from_product(*lv)
        if route == 'product_copy':
            ih = ih.copy()
    elif route == 'from_labels':
        ih = sf.IndexHierarchyGO.from_labels(ref)
    elif route == 'from_tree':
        ih = sf.IndexHierarchyGO.from_tree({a: {b: tuple(lv[2]) for b in lv[1]} for a in lv[0]})
    else:
        ctor = (lambda a: sf.IndexHierarchyGO.from_product(*lv)) if route == 'frame_columns_product' else (lambda a: sf.IndexHierarchyGO.from_labels(ref))
        frame = sf.FrameGO(np.arange(2 * len(ref)).reshape(2, len(ref)), columns=None, columns_constructor=ctor)
        ih = frame.columns
    fresh_mid, fresh_leaf = [7, 8, 9], ['p', 'q', 'r', 's']

    def check(where):
        got = [tuple(t) for t in ih]
        if got != ref:
            fails.append(Failure('oracle', f'ih3 {route} {where}: labels {got} != expected {ref}', c))
            return False
        if len(ih) != len(ref) or ih.values.shape != (len(ref), 3):
            fails.append(Failure('oracle', f'ih3 {route} {where}: len {len(ih)} / values {ih.values.shape} for {len(ref)} labels', c))
            return False
        for i, t in enumerate(ref):
            if t not in ih or ih.loc_to_iloc(t) != i:
                fails.append(Failure('oracle', f'ih3 {route} {where}: label {t} is not found at position {i}', c))
                return False
        seen = [sorted({t[d] for t in ref}, key=str) for d in range(3)]
        for t in itertools.product(*seen):
            if t not in ref and t in ih:
                fails.append(Failure('oracle', f'ih3 {route} {where}: label {t} is reported as held but was never added', c))
                return False
        if frame is not None and (frame.shape[1] != len(ref) or len(frame.columns) != frame._blocks._shape[1]):
            fails.append(Failure('oracle', f'ih3 {route} {where}: {len(frame.columns)} column labels for {frame._blocks._shape[1]} data columns', c))
            return False
        return True

    for si, (op, r) in enumerate(c['steps']):
        ctx.count('ih3_step_' + op)
        last = ref[-1]
        key, valid = None, True
        if op == 'last_leaf':
            key = (last[0], last[1], fresh_leaf[r % 4])
        elif op == 'last_mid':
            key = (last[0], fresh_mid[r % 3], lv[2][0])
        elif op == 'new_outer':
            key = (['d', 'e', 'f', 'g'][r % 4], 1, 'x')
        elif op == 'dup':
            key, valid = ref[r % len(ref)], False
        elif op == 'closed':
            key, valid = (ref[0][0], ref[0][1], 'zz'), ref[0][:2] == last[:2]
        elif op == 'read':
            check(f'step {si} read')
            continue
        if op == 'extend':
            outer = [o for o in ['h', 'i', 'j', 'k'] if all(t[0] != o for t in ref)]
            if not outer:
                continue
            add = [(outer[0], 1, 'x'), (outer[0], 1, 'y'), (outer[0], 2, 'x')]
            try:
                if frame is not None:
                    frame.extend(sf.Frame(np.zeros((2, 3)), columns=sf.IndexHierarchy.from_labels(add)))
                else:
                    ih.extend(sf.IndexHierarchy.from_labels(add))
                ref.extend(add)
            except Exception as ex:
                fails.append(Failure('oracle', f'ih3 {route} step {si}: extend by new outer labels raised {type(ex).__name__}: {ex}', c))
                break
        else:
            valid = valid and key not in ref
            try:
                if frame is not None:
                    frame[key] = np.array([si, -si])
                else:
                    ih.append(key)
                accepted = True
            except Exception as ex:
                accepted = False
            if accepted and not valid:
                fails.append(Failure('oracle', f'ih3 {route} step {si}: {op} {key} was accepted', c))
                break
            if valid and not accepted:
                fails.append(Failure('oracle', f'ih3 {route} step {si}: {op} {key} (new, in tree order) was refused', c))
                break
            if accepted:
                ref.append(key)
        if r % 3 == 0 and not check(f'after step {si} {op}'):
            break
    if not fails:
        check('final')
    return fails


def cases(ctx):
    yield from ih3_cases(ctx.rng('ih3'), 150 if ctx.tier == 'quick' else 3000)
    rng = ctx.rng('main')
    quick = ctx.tier == 'quick'
    for i in range(1500 if quick else 20000):
        kind = rng.choice(['frame', 'frame', 'frame', 'index', 'ih'])
        steps = []
        nsteps = rng.randint(4, 10)
        if kind == 'frame':
            spec = gen.rand_frame_spec(rng, 3, 3, dtypes=['int64', 'float64', 'str', 'bool'], index_kinds=('auto', 'str'), column_kinds=('str', 'str', 'auto'), min_cols=rng.choice([0, 1, 1]))
            for _ in range(nsteps):
                r = rng.random()
                op = rng.choice(GROW) if r < 0.55 else rng.choice(DERIVE) if r < 0.85 else rng.choice(READ)
                steps.append([op, rng.randint(0, 10 ** 6)])
            yield {'k': 'frame', 'spec': spec, 'steps': steps}
        elif kind == 'index':
            start = rng.choice(['auto3', 'strs', 'empty', 'ints', 'dates'])
            for _ in range(nsteps):
                r = rng.random()
                op = rng.choice(IX_GROW) if r < 0.6 else rng.choice(IX_DERIVE)
                steps.append([op, rng.randint(0, 10 ** 6)])
            yield {'k': 'index', 'start': start, 'steps': steps}
        else:
            n = rng.randint(0, 4)
            labs = gen.rand_tree_labels(rng, n, depth=2) if n else []
            for _ in range(nsteps):
                r = rng.random()
                op = rng.choice(IX_GROW) if r < 0.6 else rng.choice(['IndexHierarchy(ix)', 'copy', 'values', 'iloc', 'to_frame', 'values_at_depth'])
                steps.append([op, rng.randint(0, 10 ** 6)])
            yield {'k': 'ih', 'labels': labs, 'steps': steps}


# ------------------------------------------------------------------ running a history on the real code
def snap(o):
    import static_frame as sf
    if isinstance(o, sf.Frame):
        return frame_snapshot(o)
    if isinstance(o, sf.Series):
        return series_snapshot(o)
    if isinstance(o, IndexBase):
        # labels compared by their ==/hash class: an integer label that becomes 5.0 when a float is appended
        # is still the label it was (lookups by either form succeed)
        from sfv.canon import hash_class
        return {'labels': tuple(hash_class(x) for x in o), 'name': tok(o.name), 'cls': type(o).__name__}
    return tok(o)


def mutable_ids(o):
    """(ids of mutable objects behind the columns/labels, ids behind the data)"""
    import static_frame as sf
    from static_frame.core.index_level import IndexLevelGO
    from static_frame.core.array_go import ArrayGO

    def index_ids(ix):
        out = set()
        if isinstance(ix, sf.IndexHierarchy):
            if not ix.STATIC:
                out.add(id(ix))
            stack = [ix._levels]
            while stack:
                lv = stack.pop()
                if isinstance(lv, IndexLevelGO):
                    out.add(id(lv))
                    out |= index_ids(lv.index)
                    if lv.targets is not None:
                        if isinstance(lv.targets, ArrayGO):
                            out.add(id(lv.targets))
                            if lv.targets._array_mutable is not None:
                                out.add(id(lv.targets._array_mutable))
                        stack.extend(list(lv.targets))
            if not ix.STATIC and ix._blocks is not None:
                out |= tb_ids(ix._blocks)
        elif isinstance(ix, sf.Index) and not ix.STATIC:
            out.add(id(ix))
            out.add(id(ix._labels_mutable))
            if ix._map is not None:
                out.add(id(ix._map))
        elif isinstance(ix, sf.Index) and ix._map is not None and 'Frozen' not in type(ix._map).__name__:
            out.add(id(ix._map))       # a static index holding a mutable label map (it can only have come from a grow-only index)
        return out

    def tb_ids(tb):
        return {id(tb), id(tb._blocks), id(tb._index), id(tb._dtypes)}

    if isinstance(o, sf.Frame):
        # the columns object of a static Frame is immutable; the data object is only mutated through a FrameGO
        return index_ids(o._columns) | ({id(o._columns)} if not o._columns.STATIC else set()), tb_ids(o._blocks)
    if isinstance(o, IndexBase):
        return index_ids(o), set()
    if isinstance(o, sf.Series):
        return index_ids(o._index), set()
    return set(), set()


def is_growable(o):
    import static_frame as sf
    return (isinstance(o, sf.FrameGO)) or (isinstance(o, IndexBase) and not o.STATIC)


def usable(o):
    """labels and data in step, every column readable"""
    import static_frame as sf
    if isinstance(o, sf.Frame):
        if len(o.columns) != o._blocks._shape[1] or len(o.columns) != o.shape[1]:
            return f'columns {len(o.columns)} vs data {o._blocks._shape[1]}'
        try:
            for lab in o.columns:
                o[lab].values
            o.values
        except Exception as ex:
            return f'unreadable after failed growth: {type(ex).__name__}: {ex}'
    if isinstance(o, IndexBase):
        try:
            vals = o.values
            labs = list(o)
            if len(labs) != len(o) or len(vals) != len(o):
                return 'length mismatch'
            for i, lab in enumerate(labs):
                if o.loc_to_iloc(lab) != i:
                    return f'label {lab!r} maps to {o.loc_to_iloc(lab)} not {i}'
        except Exception as ex:
            return f'unreadable after failed growth: {type(ex).__name__}: {ex}'
    return None


class History:
    def __init__(self, ctx, c):
        self.ctx, self.c = ctx, c
        self.live = []          # containers
        self.fails = []
        self.model_ops = []     # growth ops of container 0 for the model (frame histories)
        self.real_steps = []    # (ok/err, labels) after each modelled growth op
        self.unique_obs = []    # identity graphs after each step

    def fail(self, kind, what):
        self.fails.append(Failure(kind, what, self.c))

    def check_after(self, grown_idx, before, label, ok, expect_prefix):
        after = [snap(o) for o in self.live[:len(before)]]
        for i, (b, a) in enumerate(zip(before, after)):
            if i == grown_idx:
                if not ok and a != b:
                    self.fail('oracle', f'step {label}: the failed growth call changed the container (before {str(b)[:150]} after {str(a)[:150]})')
                if not ok:
                    u = usable(self.live[i])
                    if u:
                        self.fail('oracle', f'step {label}: container unusable after the rejected call: {u}')
                if ok and expect_prefix:
                    w = prefix_violation(b, a)
                    if w:
                        self.fail('oracle', f'step {label}: growth is not append-only: {w}')
            elif a != b:
                self.fail('oracle', f'step {label}: growing container {grown_idx} changed live container {i} ({type(self.live[i]).__name__}): {str(b)[:120]} -> {str(a)[:120]}')
        # identity graph
        groups = []
        for o in self.live:
            ci, di = mutable_ids(o)
            groups.append((ci, di, is_growable(o)))
        self.unique_obs.append(groups)
        for i in range(len(groups)):
            for j in range(i + 1, len(groups)):
                if (groups[i][2] or groups[j][2]):
                    shared = (groups[i][0] | groups[i][1]) & (groups[j][0] | groups[j][1])
                    if shared:
                        self.ctx.count('shared_mutable_objects_seen')
                        self.shared = getattr(self, 'shared', []) + [(label, i, j)]


def prefix_violation(b, a):
    if isinstance(b, dict) and 'cols' in b:
        n = len(b['columns'])
        if a['columns'][:n] != b['columns']:
            return f'old labels {b["columns"]} not a prefix of {a["columns"]}'
        if a['cols'][:n] != b['cols']:
            return 'old column values/dtypes changed'
        if a['index'] != b['index'] or a['name'] != b['name']:
            return 'index or name changed'
    if isinstance(b, dict) and 'labels' in b:
        n = len(b['labels'])
        if a['labels'][:n] != b['labels']:
            return f'old labels {b["labels"]} not a prefix of {a["labels"]}'
    return None


def run_frame_history(ctx, c):
    import static_frame as sf
    import copy, pickle
    h = History(ctx, c)
    f0 = gen.build_frame(c['spec'], cls=sf.FrameGO)
    h.live.append(f0)
    n = f0.shape[0]
    fresh = [0]

    def newlab():
        # on automatic integer columns every second new label is the next integer (the fast path that keeps the index without
        # a label map), the others are strings: the map is then first built while earlier growth may still be un-cached
        fresh[0] += 1
        tt = CURRENT[0]
        if tt is not None and fresh[0] % 2 == 0:
            cols = list(tt.columns)
            if all(isinstance(x, (int, np.integer)) and not isinstance(x, (bool, np.bool_)) for x in cols) and cols == list(range(len(cols))):
                return len(cols) + NEWLAB_OFFSET[0]
        return f'n{fresh[0]}'
    CURRENT = [None]
    NEWLAB_OFFSET = [0]

    for si, (op, r) in enumerate(c['steps']):
        label = f'{si}:{op}'
        ctx.count(f'step_{op}')
        before = [snap(o) for o in h.live]
        gos = [i for i, o in enumerate(h.live) if isinstance(o, sf.FrameGO)]
        if op in GROW:
            ti = gos[r % len(gos)]
            t = h.live[ti]
            CURRENT[0] = t
            NEWLAB_OFFSET[0] = 0
            # NOTE: no read of the columns between two growth calls other than this membership list (taken from a copy)
            existing = list(t.columns.copy()) if False else list(t.columns)
            nn = t.shape[0]
            mop = None
            try:
                if op == 'setitem_ok':
                    k = newlab(); v = [r % 7 + i for i in range(nn)]
                    mop = ('setitem', k, v)
                    t[k] = v
                elif op == 'setitem_dup':
                    if not existing:
                        continue
                    k = existing[r % len(existing)]; v = list(range(nn))
                    mop = ('setitem', k, v)
                    t[k] = v
                elif op == 'setitem_len':
                    k = newlab(); v = list(range(nn + 1 + r % 2))
                    mop = ('setitem', k, v)
                    t[k] = np.array(v) if r % 3 else v
                elif op == 'setitem_series':
                    k = newlab()
                    labs = list(t.index)[::-1][:max(0, nn - r % 2)]
                    s = sf.Series(list(range(10, 10 + len(labs))), index=labs)
                    mop = ('setitem_eval', k)
                    t[k] = s
                elif op == 'setitem_scalar':
                    k = newlab()
                    mop = ('setitem_eval', k)
                    t[k] = r % 5
                elif op == 'extend_series':
                    k = newlab()
                    s = sf.Series(list(range(nn)), index=t.index, name=k)
                    mop = ('extseries', k, list(range(nn)))
                    t.extend(s)
                elif op == 'extend_series_dup':
                    if not existing:
                        continue
                    k = existing[r % len(existing)]
                    mop = ('extseries', k, list(range(nn)))
                    t.extend(sf.Series(list(range(nn)), index=t.index, name=k))
                elif op in ('extend_frame', 'extend_frame_partdup', 'extend_frame_unaligned', 'extend_empty_frame'):
                    if op == 'extend_empty_frame':
                        g = sf.Frame(index=t.index)
                        labs = []
                    else:
                        labs = [newlab()]
                        NEWLAB_OFFSET[0] += 1 if isinstance(labs[0], int) else 0
                        labs.append(newlab())
                        if op == 'extend_frame_partdup' and existing:
                            labs[1 - r % 2 if r % 3 else 1] = existing[r % len(existing)]
                        idx = list(t.index) if op != 'extend_frame_unaligned' else (list(t.index)[::-1][:max(0, nn - 1)] + ['zzz'])
                        g = sf.Frame.from_items(((labs[0], [1.5] * len(idx)), (labs[1], list(range(len(idx))))), index=idx) if len(set(map(tok, labs))) == 2 else None
                        if g is None:
                            continue
                    mop = ('extframe', labs)
                    if r % 4 == 1:
                        g = g.to_frame_go()      # the frame handed over can itself grow afterwards
                    t.extend(g)
                    if r % 2:
                        # the frame that was handed over stays in use: it must not follow the container it was added to, nor the
                        # other way round (bookkeeping adopted from it must be the container's own)
                        h.live.append(g)
                        ctx.count('extend_source_kept_live')
                elif op in ('extend_items', 'extend_items_partdup', 'extend_items_badlen'):
                    labs = []
                    for _k in range(3):
                        labs.append(newlab())
                        NEWLAB_OFFSET[0] += 1 if isinstance(labs[-1], int) else 0
                    vals = [list(range(nn)), [0.5] * nn, ['x'] * nn]
                    if op == 'extend_items_partdup':
                        if r % 2 and existing:
                            labs[1 + r % 2] = existing[r % len(existing)]
                        else:
                            labs[2] = labs[0]
                    if op == 'extend_items_badlen':
                        vals[1 + r % 2] = list(range(nn + 1))
                    mop = ('extitems', labs, vals)
                    t.extend_items(zip(labs, vals))
                ok = True
            except Exception as ex:
                ok = False
                ctx.count(f'grow_failed_{type(ex).__name__}')
            h.check_after(ti, before, label, ok, True)
            if ti == 0 and mop is not None:
                h.model_ops.append(mop)
                h.real_steps.append(('ok' if ok else 'err', [tok(x) for x in f0.columns], f0.shape[1]))
        elif op in DERIVE:
            src = h.live[r % len(h.live)]
            if not isinstance(src, sf.Frame):
                continue
            try:
                d = derive_frame(src, op, r)
            except Exception:
                ctx.count('derive_raised')
                continue
            if d is not None and len(h.live) < 8:
                h.live.append(d)
            h.check_after(-1, before, label, True, False)
        else:
            src = h.live[r % len(h.live)]
            try:
                if op == 'values':
                    src.values
                elif op == 'dtypes':
                    src.dtypes
                elif op == 'columns_values':
                    src.columns.values
                elif op == 'loc_last':
                    if src.shape[1]:
                        src[list(src.columns)[-1]]
                elif op == 'display':
                    repr(src)
                elif op == 'positions':
                    src.columns.positions
            except Exception:
                ctx.count('read_raised')
            h.check_after(-1, before, label, True, False)
    return h


def derive_frame(src, op, r):
    import static_frame as sf
    import copy, pickle
    m = src.shape[1]
    if op == 'to_frame':
        return src.to_frame()
    if op == 'to_frame_go':
        return src.to_frame_go()
    if op == 'to_frame_he':
        return src.to_frame_he()
    if op == 'iloc':
        return src.iloc[:, : max(0, m - r % 2)]
    if op == 'getitem':
        return src[list(src.columns)[: max(1, m - 1)]] if m else None
    if op == 'relabel':
        return src.relabel(columns=lambda x: x)
    if op == 'rename':
        return src.rename('rn')
    if op == 'sort_columns':
        return src.sort_columns()
    if op == 'sort_index':
        return src.sort_index()
    if op == 'reindex':
        return src.reindex(columns=list(src.columns)[::-1])
    if op == 'add1':
        return src.isna()
    if op == 'T':
        return src.T
    if op == 'set_index':
        return src.set_index(list(src.columns)[0]) if m else None
    if op == 'fillna':
        return src.fillna(0)
    if op == 'astype':
        return src.astype(object)
    if op == 'drop':
        return src.drop.iloc[:, 0] if m > 1 else None
    if op == 'assign':
        return src.assign[list(src.columns)[0]](0) if m else None
    if op == 'FrameGO(f)':
        return sf.FrameGO(src)
    if op == 'Frame(f)':
        return sf.Frame(src)
    if op == 'columns':
        return src.columns
    if op == 'columns_copy':
        return src.columns.copy()
    if op == 'group_first':
        if m and src.shape[0]:
            for k, g in src.iter_group_items(list(src.columns)[0]):
                return g
        return None
    n = src.shape[0]
    if op == 'drop_rows':
        return src.drop.iloc[[r % n]] if n else None
    if op == 'iloc_rows':
        return src.iloc[: max(1, n - 1)] if n else None
    if op == 'loc_rows':
        return src.loc[list(src.index)[: max(1, n - 1)]] if n else None
    if op == 'head':
        return src.head(1)
    if op == 'tail':
        return src.tail(1)
    if op == 'cat':
        import random
        from sfv import ops
        if not m:
            return None
        rr = random.Random(r)
        name = rr.choice(ops.catalogue_names())
        args = ops.rand_args(name, rr, {'rows': n, 'cols': [{'dt': 'x'}] * m})
        res = ops.CATALOGUE[name][1](src, args)
        return res if isinstance(res, (sf.Frame, sf.Series)) else None
    if op == 'copy':
        return copy.copy(src)
    if op == 'deepcopy':
        return copy.deepcopy(src)
    if op == 'pickle':
        return pickle.loads(pickle.dumps(src))
    raise ValueError(op)


def run_index_history(ctx, c):
    import static_frame as sf
    import copy
    h = History(ctx, c)
    if c['k'] == 'index':
        start = c['start']
        ix = {'auto3': lambda: sf.IndexGO(range(3), loc_is_iloc=True) if False else sf.IndexGO((0, 1, 2)),
              'strs': lambda: sf.IndexGO(('a', 'b', 'c')), 'empty': lambda: sf.IndexGO(()), 'ints': lambda: sf.IndexGO((5, 3, 9)),
              'dates': lambda: None}[start]()
        pool = ['a', 'b', 'c', 'd', 'e', 3, 4, 5, 9, 0, 1, 2, 'zz', 2.5]
        cls_static, cls_go = sf.Index, sf.IndexGO
        if start == 'dates':
            ix = sf.IndexDateGO(('2020-01-01', '2020-01-03'))
            pool = [np.datetime64('2020-01-0%d' % d) for d in range(1, 10)]
            cls_static, cls_go = sf.IndexDate, sf.IndexDateGO
    else:
        labs = [untok(t) for t in c['labels']]
        ix = sf.IndexHierarchyGO.from_labels(labs) if labs else sf.IndexHierarchyGO.from_labels((), depth_reference=2) if False else None
        if ix is None:
            ix = sf.IndexHierarchyGO.from_labels([('a', 1)])
        pool = None
        cls_static, cls_go = sf.IndexHierarchy, sf.IndexHierarchyGO
    h.live.append(ix)
    for si, (op, r) in enumerate(c['steps']):
        label = f'{si}:{op}'
        ctx.count(f'step_ix_{op}')
        before = [snap(o) for o in h.live]
        gos = [i for i, o in enumerate(h.live) if isinstance(o, IndexBase) and not o.STATIC]
        if op in IX_GROW:
            ti = gos[r % len(gos)]
            t = h.live[ti]
            held = list(t)
            try:
                if c['k'] == 'index':
                    cand = [p for p in pool if not any(p == x and type(p) == type(x) or p == x for x in held)]
                    if op == 'append_ok':
                        if not cand:
                            continue
                        t.append(cand[r % len(cand)])
                    elif op == 'append_dup':
                        if not held:
                            continue
                        t.append(held[r % len(held)])
                    elif op == 'extend_ok':
                        if len(cand) < 2:
                            continue
                        t.extend(cand[:2] if r % 2 else (x for x in cand[:2]))
                    elif op == 'extend_partdup':
                        if not held or not cand:
                            continue
                        t.extend([cand[0], held[r % len(held)]])
                    elif op == 'extend_selfdup':
                        if not cand:
                            continue
                        t.extend([cand[0], cand[0]])
                else:
                    outer = sorted({x[0] for x in held})
                    new_outer = [o for o in ['a', 'b', 'c', 'd', 'e', 'f', 'g'] if o not in outer]
                    last_outer = held[-1][0] if held else 'a'
                    inner_used = [x[1] for x in held if x[0] == last_outer]
                    if op == 'append_ok':
                        if r % 2 and new_outer:
                            t.append((new_outer[0], 1))
                        else:
                            t.append((last_outer, max([v for v in inner_used if isinstance(v, (int, np.integer))] + [0]) + 1 + r % 3))
                    elif op == 'append_dup':
                        if not held:
                            continue
                        t.append(held[r % len(held)])
                    elif op == 'extend_ok':
                        if len(new_outer) < 2:
                            continue
                        t.extend(sf.IndexHierarchy.from_labels([(new_outer[0], 1), (new_outer[0], 2), (new_outer[1], 1)]))
                    elif op == 'extend_partdup':
                        if not new_outer or not outer:
                            continue
                        t.extend(sf.IndexHierarchy.from_labels([(new_outer[0], 1), (outer[r % len(outer)], 77)]))
                    elif op == 'extend_selfdup':
                        continue
                ok = True
            except Exception as ex:
                ok = False
                ctx.count(f'grow_failed_{type(ex).__name__}')
            h.check_after(ti, before, label, ok, True)
            u = usable(h.live[ti])
            if u:
                h.fail('oracle', f'step {label}: index inconsistent after growth: {u}')
            grown_now = list(h.live[ti])
            for oi, o in enumerate(h.live):
                if oi == ti or not isinstance(o, IndexBase) or c['k'] != 'index':
                    continue
                own = list(o)
                for x in grown_now:
                    if not any(x == y for y in own):
                        try:
                            found = x in o
                        except Exception:
                            found = False
                        if found:
                            h.fail('oracle', f'step {label}: label {x!r} appended to container {ti} is found in live container {oi} ({type(o).__name__}) which does not hold it')
        else:
            src = h.live[r % len(h.live)]
            try:
                d = None
                if op in ('Index(ix)', 'IndexHierarchy(ix)'):
                    d = cls_static(src)
                elif op == 'IndexGO(ix)':
                    d = cls_go(src)
                elif op == 'copy':
                    d = src.copy()
                elif op == 'iloc':
                    d = src.iloc[: max(0, len(src) - 1)]
                elif op == 'relabel':
                    d = src.relabel(lambda x: x)
                elif op in ('values', 'values_at_depth'):
                    src.values
                    if op == 'values_at_depth':
                        src.values_at_depth(0)
                elif op == 'union':
                    d = src.union(src)
                elif op == 'to_series':
                    d = src.to_series()
                elif op == 'to_frame':
                    d = src.to_frame()
                elif op == 'label_widths':
                    list(src.label_widths_at_depth(0))
                if d is not None and len(h.live) < 8:
                    h.live.append(d)
            except Exception:
                ctx.count('derive_raised')
            h.check_after(-1, before, label, True, False)
    return h


# ------------------------------------------------------------------ model
def wire_atom(it, t):
    return it.atom(t)


def model_lines(c):
    # the model run needs the evaluated values of the real run: produced in evaluate(), so the model
    # line is built lazily there via a second driver call batch (see `extra`); keep the per-case list empty
    return []


PENDING = []   # (case, real_steps, line, unique_lines)


def evaluate(ctx, c, outs):
    ctx.count(f'history_{c["k"]}')
    if c['k'] == 'ih3':
        return run_ih3_history(ctx, c)
    if c['k'] == 'frame':
        h = run_frame_history(ctx, c)
        # model line for container 0
        it = Interner()
        f0spec = c['spec']
        blocks = gen.build_blocks(f0spec)
        labels = [it.atom(t) for t in f0spec['columns']['labels']]
        tbw = tb_wire_from_blocks(blocks, f0spec['rows'], it)
        mops, keep = [], []
        for (mop, real) in zip(h.model_ops, h.real_steps):
            if mop[0] == 'setitem':
                mops.append(f'(setitem {it.atom(tok(mop[1]))} (' + ' '.join(it.atom(tok(v)) for v in mop[2]) + '))')
            elif mop[0] == 'setitem_eval':
                # Series / scalar values are evaluated by the library (reindex / np.full): always a full column
                mops.append(f'(setitem {it.atom(tok(mop[1]))} (' + ' '.join(['v'] * f0spec['rows']) + '))')
            elif mop[0] == 'extseries':
                mops.append(f'(extseries {it.atom(tok(mop[1]))} (' + ' '.join(['v'] * f0spec['rows']) + '))')
            elif mop[0] == 'extframe':
                labs = ' '.join(it.atom(tok(l)) for l in mop[1])
                col = '(' + ' '.join(['v'] * f0spec['rows']) + ')'
                blocks_w = ' '.join(f'(d1 x {" ".join(["v"] * f0spec["rows"])})' for _ in mop[1])
                mops.append(f'(extframe ({labs}) ({blocks_w}))')
            elif mop[0] == 'extitems':
                ps = ' '.join(f'({it.atom(tok(l))} (' + ' '.join(['v'] * len(v)) + '))' for l, v in zip(mop[1], mop[2]))
                mops.append(f'(extitems ({ps}))')
            keep.append(real)
        if mops:
            PENDING.append((c, keep, f'go.run {f0spec["rows"]} ({" ".join(labels)}) {tbw} ({" ".join(mops)})', it))
    else:
        h = run_index_history(ctx, c)
    # Unique on the observed identity graph (evaluated by the model in `extra`); direct oracle here
    for label, i, j in getattr(h, 'shared', []):
        h.fail('oracle', f'step {label}: live containers {i} and {j} share a mutable object and one of them can grow')
    return h.fails


def extra(ctx):
    """second driver batch: model predictions for the growth histories of the start containers"""
    from sfv import lean
    fails = []
    if not PENDING or getattr(__import__('sys').modules[__name__], 'MODEL_OFF', False):
        return fails
    outs = lean.run_driver([p[2] for p in PENDING])
    from sfv.tbwire import parse_sexp
    for (c, real, line, it), out in zip(PENDING, outs):
        ctx.traces += 1
        if not out.startswith('ok '):
            fails.append(Failure('corr', f'go.run answered {out[:80]}', c))
            continue
        steps = parse_sexp(out[3:])
        for k, (st, (rok, rlabels, rncols)) in enumerate(zip(steps, real)):
            mlabels = [it.token(a) for a in st[1]] if isinstance(st[1], list) else []
            if st[0] != rok or mlabels != rlabels or int(st[2]) != rncols:
                fails.append(Failure('corr', f'growth step {k} of the start container: model {st[0]} labels {mlabels} ncols {st[2]} vs real {rok} {rlabels} {rncols}', c))
                break
    PENDING.clear()
    return fails


def classify(f):
    return None


def search(ctx):
    rng = ctx.rng('search')
    for i in range(5000):
        spec = gen.rand_frame_spec(rng, 3, 3, dtypes=['int64', 'float64', 'str'], index_kinds=('auto', 'str'), column_kinds=('str',), min_cols=1)
        steps = [[rng.choice(GROW + DERIVE), rng.randint(0, 10 ** 6)] for _ in range(8)]
        yield {'k': 'frame', 'spec': spec, 'steps': steps}
