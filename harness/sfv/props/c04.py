"""C04 - selection returns exactly the addressed rows/columns with their labels."""
from __future__ import annotations

import numpy as np

from check import Failure
from sfv import gen
from sfv.canon import tok, untok, err_cat, dtype_tok, array_toks
from sfv import locmap_hook            # regenerates Gen/LocMap.lean with the other translators (see the module)
from sfv.props import locmap_grid as lmg

TARGETS = ['SFModel.Props.C04', 'SFModel.Bridge', 'SFModel.Props.C02', 'SFModel.Props.C04Frame'] + locmap_hook.TARGETS
THEOREMS = [
    'SF.C04.slice_positions_in_range', 'SF.C04.slice_positions_arith', 'SF.C04.slice_positions_complete_pos',
    'SF.C04.slice_positions_strict', 'SF.C04.int_position', 'SF.C04.mask_positions',
    'SF.C04.key_positions_in_range', 'SF.C04.list_positions',
    'SF.Bridge.inclusive_bridge', 'SF.Bridge.ascending_bridge', 'SF.Bridge.cols_bridge',
    # the translated generator TypeBlocks._indices_to_contiguous_pairs = the reference loop (over Python ints), and, on the
    # (block, column) pairs of the block model, = TB.contiguousPairs, which the theorems of C03 / C08 are about
    'SF.Bridge.contiguous_ref_bridge', 'SF.Bridge.contiguous_bridge',
    # label keys over a flat index: Series.loc / Frame.loc are run against Index.locToIlocP (driver op index.cloc), about which:
    'SF.C02.bijection', 'SF.C02.slice_inclusive', 'SF.C02.slice_inclusive_descending',
    # ... Index.locToIlocP's label-slice translation = LocMap.map_slice_args / LocMap.loc_to_iloc TRANSLATED from the current source
    *locmap_hook.BRIDGE_THEOREMS, 'SF.C02LocMap.gen_slice_inclusive', 'SF.C02LocMap.gen_slice_inclusive_descending', 'SF.C02LocMap.gen_slice_absent',
    'SF.C02LocMap.gen_element_bijection', 'SF.C02LocMap.gen_list_positions',
    # the FRAME level (Props/C04Frame.lean; model Fr.iloc / Fr.loc = Frame._extract / Frame._extract_loc, driver ops
    # frame.iloc / frame.loc): Key.positions + SF.C03.extract_refines (blocks) + Index._extract_iloc (labels) composed,
    # and SF.C02.bijection composed with them for label keys
    'SF.C04.frame_iloc_exact', 'SF.C04.frame_labels_nodup_iff', 'SF.C04.frame_iloc_element', 'SF.C04.frame_iloc_line',
    'SF.C04.frame_iloc_error', 'SF.C04.frame_loc_positional', 'SF.C04.frame_loc_exact', 'SF.C04.frame_loc_element',
    'SF.C03.extract_refines',
]
PARTIAL = []
CORR_ONLY = ['Frame/Series .iloc with every key kind on both axes (model: Key.positions + list selection in the harness); Frame.iloc / Frame.loc / '
             'Frame.__getitem__ over flat, automatic and date axes (and untouched hierarchical ones) are ALSO run against the Lean Frame model '
             'Fr.iloc / Fr.loc (whole answer: kind, labels and automatic/mapped state of both axes, name, every cell, dtypes, error category); '
             'hierarchical axes under a non-null key and IndexDate label keys stay with the harness reference only',
             'label routes (.loc / getitem) on flat, auto, datetime and hierarchical axes (reference: dict label->position)',
             'label keys of every kind (label, list, slice with step in {None,1,2,3,-1,-2} and open / absent ends, Boolean mask of right and wrong length) over flat and automatic indices: Series.loc, Frame.loc[k] and Frame.loc[k, col] return exactly the rows the Lean Index model (Index.locToIlocP, the container route) addresses, and refuse what it refuses']
RULE = ('seeded random frames/series (all dtype kinds, random block layouts, index kinds) x random keys '
        '(int, slice with out-of-range / negative members, list with repeats, Boolean mask) on one or both axes, '
        'plus a slice grid; non-trivial = key is not the null slice and the container is non-empty; '
        'distinct = distinct canonical case JSON')
TRUSTED = ['tools/py2lean.py (translator of slice_to_ascending_slice, slice_to_inclusive_slice, _cols_to_slice, _indices_to_contiguous_pairs); cross-checked against the real functions on a grid each run',
           'NumPy basic/fancy indexing of a single array is a parameter of the model (compared, not proved)', locmap_hook.TRUSTED]
ASSUMPTIONS = ['NumPy indexing semantics = CPython slice.indices/range semantics (compared on every run)']
BUDGET = {'quick': 200, 'thorough': 1500}


def nontrivial(c):
    if c['k'] in ('sl', 'cols'):
        return True
    if c['k'] == 'pairs':
        return len(c['l']) > 0
    return c.get('n', 1) > 0


def cases(ctx):
    rng = ctx.rng('main')
    quick = ctx.tier == 'quick'
    # the translated LocMap functions against the real ones: all label slices over a 3-label index (C02 runs the full grid)
    yield from lmg.cases(ctx, offsets=(None,), sizes=(3,), pools=('int',))
    # slice grid (translator cross-check + positions)
    if quick:
        for _ in range(600):
            n = rng.randint(0, 7)
            yield {'k': 'sl', 's': gen.rand_slice(rng, n), 'n': n}
    else:
        for n in range(0, 6):
            for s in gen.all_slices(n):
                yield {'k': 'sl', 's': s, 'n': n}
    for _ in range(150 if quick else 2000):
        ln = rng.randint(0, 5)
        start = rng.randint(0, 6)
        if rng.random() < 0.5:
            l = list(range(start, start + ln))
        else:
            l = list(range(start + ln, start, -1))
        if rng.random() < 0.2:
            rng.shuffle(l)
        yield {'k': 'cols', 'l': l}
    # (block, column) pairs for the translated generator _indices_to_contiguous_pairs (own stream: the cases above and below
    # are the ones they were before this kind existed)
    prng = ctx.rng('pairs')
    yield {'k': 'pairs', 'l': []}
    for _ in range(400 if quick else 6000):
        yield {'k': 'pairs', 'l': rand_pairs(prng)}
    # containers
    for i in range(700 if quick else 12000):
        spec = gen.rand_frame_spec(rng, 5, 5, dtypes=gen.DTYPES_ALL if rng.random() < 0.4 else gen.DTYPES_BASIC,
                                   index_kinds=('auto', 'int', 'str', 'mixed', 'date', 'ih'),
                                   column_kinds=('auto', 'int', 'str', 'ih'))
        n, m = spec['rows'], len(spec['cols'])
        route = rng.choice(['iloc2', 'iloc2', 'iloc_r', 'series', 'loc2', 'loc_r', 'getitem', 'sloc'])
        rk = gen.rand_key(rng, n, unique_list=route in ('loc2', 'loc_r', 'sloc') and False)
        ck = gen.rand_key(rng, m)
        yield {'k': 'frame', 'spec': spec, 'route': route, 'rk': rk, 'ck': ck, 'n': n * m}
    # label-specific forms: Boolean Series keys aligned by label, ILoc wrappers, absent labels, datetime periods
    for i in range(500 if quick else 8000):
        sub = rng.choice(['boolseries', 'iloc_wrap', 'absent', 'dt', 'dt', 'dt_slice', 'lmodel', 'lmodel', 'lmodel'])
        n = rng.randint(1, 6)
        if sub == 'lmodel':
            yield lmodel_case(rng, n)
            continue
        if sub in ('dt', 'dt_slice'):
            days = sorted(rng.sample(range(0, 500), n))
            if sub == 'dt' and rng.random() < 0.5:
                rng.shuffle(days)
            yield {'k': 'lab', 'sub': sub, 'days': days, 'r': rng.randint(0, 10 ** 6), 'n': n}
        else:
            kind = rng.choice(['auto', 'int', 'str', 'mixed', 'date'])
            labels = gen.rand_labels(rng, n, kind)
            yield {'k': 'lab', 'sub': sub, 'labels': labels, 'lkind': kind, 'r': rng.randint(0, 10 ** 6), 'n': n,
                   'bits': [rng.randint(0, 1) for _ in range(n)], 'perm': rng.sample(range(n), n)}
    yield from cases_chain(ctx, ctx.rng('chain'))


def rand_pairs(rng):
    """a list of (block, column) pairs made of runs: ascending / descending by one (also down to and through 0), repeats of
    one pair, jumps, block changes with the column continuing, single pairs; sometimes shuffled or with a negative member"""
    out = []
    block = rng.randint(0, 3)
    for _ in range(rng.randint(0, 5)):
        kind = rng.choice(['asc', 'asc', 'desc', 'desc', 'repeat', 'single', 'zigzag'])
        ln = rng.randint(1, 4)
        start = rng.randint(0, 6)
        if out and rng.random() < 0.3:
            # continue from where the previous run stopped (the run goes on, or turns round, or only the block changes)
            start = out[-1][1] + rng.choice([-1, 0, 1])
        if kind == 'asc':
            cols = list(range(start, start + ln))
        elif kind == 'desc':
            cols = list(range(start, start - ln, -1))
        elif kind == 'repeat':
            cols = [start] * ln
        elif kind == 'single':
            cols = [start]
        else:
            cols = [start + (i % 2) for i in range(ln)]
        if rng.random() < 0.85:
            cols = [c for c in cols if c >= 0] or [0]
        out += [[block, c] for c in cols]
        if rng.random() < 0.5:
            block = rng.randint(0, 3) if rng.random() < 0.5 else block + 1
    if rng.random() < 0.1:
        rng.shuffle(out)
    return out


def model_lines(c):
    return model_lines_(c)


def cases_chain(ctx, rng):
    for _ in range(500 if ctx.tier == 'quick' else 8000):
        yield chain_case(rng)
    for _ in range(60 if ctx.tier == 'quick' else 600):
        k = rng.randint(3, 6)
        days = sorted(rng.sample(range(0, 75), k))
        yield {'k': 'lab', 'sub': 'grown', 'variant': rng.choice(['date', 'date', 'ih']), 'days': days, 'split': rng.randint(1, k - 1),
               'r': rng.randint(0, 10 ** 6), 'n': k}
    for _ in range(300 if ctx.tier == 'quick' else 5000):
        spec = gen.rand_frame_spec(rng, 4, 5, dtypes=gen.DTYPES_BASIC, index_kinds=('auto', 'int', 'str'), column_kinds=('auto', 'int', 'str'), min_rows=1, min_cols=1, run_bias=0.6)
        n, m = spec['rows'], len(spec['cols'])
        yield {'k': 'lab', 'sub': 'bloc', 'spec': spec, 'bits': [[rng.randint(0, 1) for _ in range(m)] for _ in range(n)],
               'perm': rng.random() < 0.3, 'r': rng.randint(0, 10 ** 6), 'n': n * m}


def eval_grown(ctx, c):
    """a label selection straight after a grow-only axis grew (nothing read in between): the selection answers for the labels
    the axis holds NOW - period keys and partial hierarchical labels are matched against arrays that growth leaves un-cached"""
    import static_frame as sf
    fails = []
    r = c['r']
    ctx.count('lab_grown')
    days0, days1 = c['days'][: c['split']], c['days'][c['split']:]
    mk = lambda d: np.datetime64('2020-01-01') + np.timedelta64(int(d), 'D')
    base = np.arange(2 * len(days0)).reshape(2, len(days0))
    if c['variant'] == 'date':
        f = sf.FrameGO(base, columns=sf.IndexDateGO([mk(d) for d in days0]), index=('x', 'y'))
        for k, d in enumerate(days1):
            f[mk(d)] = (100 + k, 200 + k)
        alld = [mk(d) for d in c['days']]
        month = str(alld[r % len(alld)])[:7]
        exp = [str(d) for d in alld if str(d)[:7] == month]
        for desc, fn in ((f'frame_go[{month!r}]', lambda: f[month]), (f'frame_go.loc["y", {month!r}]', lambda: f.loc['y', month]),
                         ('frame_go[np.datetime64(month)]', lambda: f[np.datetime64(month, 'M')])):
            try:
                res = fn()
                got = [str(x) for x in (res.columns if isinstance(res, sf.Frame) else res.index)]
            except Exception as ex:
                fails.append(Failure('oracle', f'grown axis: {desc} raised {type(ex).__name__}: {ex}', c))
                break
            if got != exp:
                fails.append(Failure('oracle', f'grown axis: {desc} straight after adding columns {[str(mk(d)) for d in days1]} selected {got}, the axis holds {exp} in that month', c))
                break
    else:
        outer0 = [('a', 1), ('a', 2), ('b', 1)]
        f = sf.FrameGO(np.arange(6).reshape(2, 3), columns=sf.IndexHierarchyGO.from_labels(outer0), index=('x', 'y'))
        added = [('b', 2 + k) for k in range(len(days1))]
        for k, lab in enumerate(added):
            f[lab] = (100 + k, 200 + k)
        exp = [l for l in outer0 + added if l[0] == 'b']
        try:
            res = f.loc[:, sf.HLoc['b']]
            got = [tuple(x) for x in res.columns] if isinstance(res, sf.Frame) else None
        except Exception as ex:
            return [Failure('oracle', f'grown axis: frame_go.loc[:, HLoc["b"]] raised {type(ex).__name__}: {ex}', c)]
        if got != exp:
            fails.append(Failure('oracle', f'grown axis: HLoc["b"] straight after adding {added} selected {got}, the axis holds {exp} under "b"', c))
    return fails


def eval_bloc(ctx, c):
    """Frame.bloc with a Boolean Frame key: the result pairs every selected (row label, column label) with the cell at
    those labels, whatever the block layout"""
    import static_frame as sf
    fails = []
    f = gen.build_frame(c['spec'])
    n, m = f.shape
    bits = np.array(c['bits'], dtype=bool).reshape(n, m)
    key = sf.Frame(bits, index=f.index, columns=f.columns)
    if c['perm'] and n > 1:
        key = key.iloc[::-1]            # aligned by label, not by position
    ctx.count('lab_bloc')
    rl, cl = list(f.index), list(f.columns)
    exp = {(tok(rl[i]), tok(cl[j])): tok(f.iloc[i, j]) for i in range(n) for j in range(m) if bits[i, j]}
    try:
        res = f.bloc[key]
    except Exception as ex:
        return [Failure('oracle', f'label route bloc: Frame.bloc[Boolean Frame] raised {type(ex).__name__}: {ex} (layout {c["spec"]["layout"]})', c)]
    got = {(tok(k[0]), tok(k[1])): tok(v) for k, v in res.items()}
    # (the selected cells arrive in ONE Series: numeric cells may widen - dtype resolution is C07's subject)
    same = set(got) == set(exp) and all(cell_equal(got[k], exp[k]) for k in exp)
    if not same or len(res) != len(exp):
        bad = sorted(k for k in set(got) | set(exp) if k not in got or k not in exp or not cell_equal(got[k], exp[k]))[:4]
        fails.append(Failure('oracle', f'label route bloc: Frame.bloc pairs {[(k, got.get(k), exp.get(k)) for k in bad]} (label pair, got, expected) - layout {c["spec"]["layout"]}', c))
    return fails


def model_lines_(c):
    if c['k'] == lmg.K:
        return lmg.model_lines(c)
    if c['k'] == 'sl':
        s = gen.key_to_wire(c['s'])
        return [f'slice.positions {s} {c["n"]}', f'slice.ascending {s} {c["n"]}', f'gen.ascending {s} {c["n"]}',
                f'slice.inclusive {s} 3', f'gen.inclusive {s} 3']
    if c['k'] == 'cols':
        l = '(' + ' '.join(str(x) for x in c['l']) + ')'
        return [f'slice.cols {l}', f'gen.cols {l}']
    if c['k'] == 'pairs':
        return ['gen.contiguous (' + ' '.join(f'({b} {col})' for b, col in c['l']) + ')']
    if c['k'] == 'lab':
        if c['sub'] == 'lmodel':
            return [lmodel_line(c)] + fm_lmodel_lines(c)
        if c['sub'] == 'chain':
            return [f'key.positions {gen.key_to_wire(c["key"])} {c["n"]}']
        return []
    if c['k'] == 'frame':
        spec = c['spec']
        return [f'key.positions {gen.key_to_wire(c["rk"])} {spec["rows"]}',
                f'key.positions {gen.key_to_wire(c["ck"])} {len(spec["cols"])}'] + fm_frame_lines(c)
    return []


def sl_wire(s):
    f = lambda v: 'N' if v is None else str(int(v))
    return f'ok (sl {f(s.start)} {f(s.stop)} {f(s.step)})'


def evaluate(ctx, c, outs):
    fails = []
    model_on = bool(outs)
    if c['k'] == lmg.K:
        return lmg.evaluate(ctx, c, outs)
    if c['k'] == 'sl':
        from static_frame.core.util import slice_to_ascending_slice, slice_to_inclusive_slice
        s = slice(c['s'][1], c['s'][2], c['s'][3])
        n = c['n']
        ctx.count('slice_cases')
        try:
            real = 'ok (' + ' '.join(str(x) for x in np.arange(n)[s].tolist()) + ')'
            assert list(range(n))[s] == np.arange(n)[s].tolist()
        except ValueError:
            real = 'err value'
        if model_on and outs[0] != real:
            fails.append(Failure('corr', f'slice.positions {c["s"]} n={n}: model {outs[0]} vs numpy {real}', c))
        try:
            ra = sl_wire(slice_to_ascending_slice(s, n))
        except (ZeroDivisionError, ValueError):
            ra = 'err value'
        if model_on:
            if outs[2] != ra:
                fails.append(Failure('corr', f'translated slice_to_ascending_slice differs from the real function on {c["s"]} n={n}: {outs[2]} vs {ra}', c))
            if ra != 'err value' and outs[1] != ra:
                fails.append(Failure('corr', f'reference sliceToAscending differs from the real function on {c["s"]} n={n}: {outs[1]} vs {ra}', c))
            ri = sl_wire(slice_to_inclusive_slice(s, 3))
            if outs[3] != ri or outs[4] != ri:
                fails.append(Failure('corr', f'slice_to_inclusive_slice {c["s"]}: model {outs[3]} gen {outs[4]} real {ri}', c))
        return fails
    if c['k'] == 'cols':
        from static_frame.core.type_blocks import TypeBlocks
        ctx.count('cols_cases')
        try:
            r = sl_wire(TypeBlocks._cols_to_slice(c['l']))
        except IndexError:
            r = 'err lookup'
        if model_on and (outs[0] != r or outs[1] != r):
            fails.append(Failure('corr', f'_cols_to_slice {c["l"]}: model {outs[0]} gen {outs[1]} real {r}', c))
        return fails
    if c['k'] == 'pairs':
        from static_frame.core.type_blocks import TypeBlocks
        ctx.count('pairs_cases')
        ctx.count(f'pairs_len_{min(len(c["l"]), 8)}')
        f = lambda v: 'N' if v is None else str(int(v))
        try:
            got = list(TypeBlocks._indices_to_contiguous_pairs([tuple(p) for p in c['l']]))
            r = 'ok (' + ' '.join(f'({b} (sl {f(s.start)} {f(s.stop)} {f(s.step)}))' for b, s in got) + ')'
            ctx.count(f'pairs_out_{min(len(got), 6)}')
            if any(s.step == -1 for _, s in got):
                ctx.count('pairs_descending_run')
        except IndexError:
            r = 'err lookup'
        if model_on and outs[0] != r:
            fails.append(Failure('corr', f'translated _indices_to_contiguous_pairs differs from the real function on {c["l"]}: {outs[0]} vs {r}', c))
        return fails
    if c['k'] == 'lab':
        if c['sub'] == 'lmodel':
            return eval_lmodel(ctx, c, outs[:1]) + fm_eval(ctx, c, outs[1:])
        if c['sub'] == 'chain':
            return eval_chain(ctx, c, outs)
        if c['sub'] == 'bloc':
            return eval_bloc(ctx, c)
        if c['sub'] == 'grown':
            return eval_grown(ctx, c)
        return eval_lab(ctx, c)
    return eval_frame(ctx, c, outs[:2]) + fm_eval(ctx, c, outs[2:])


LM_POOL = ['a', 'b', 'c', 1, 2, 3, 'zz', 10, -1, 'x', 'ab', 7]
LM_ABSENT = ['__absent__', 99, -42, 'q']


def lmodel_case(rng, n):
    """a label key of every kind over a flat index; the Lean Index model (SFModel.Index, theorems of C02) says
    which positions it addresses, Series.loc / Frame.loc must hand back exactly those rows"""
    kind = rng.choice(['auto', 'int', 'str', 'mixed'])
    if kind == 'mixed':
        labels = [tok(v) for v in rng.sample(LM_POOL, n)]
    else:
        labels = gen.rand_labels(rng, n, kind)

    def lab(absent_p=0.1):
        if rng.random() < absent_p:
            return tok(rng.choice(LM_ABSENT))
        return rng.choice(labels)
    kk = rng.choice(['lab', 'list', 'sl', 'sl', 'sl', 'mask'])
    if kk == 'lab':
        key = ['lab', lab(0.2)]
    elif kk == 'list':
        key = ['list'] + [lab(0.05) for _ in range(rng.randint(0, 4))]
    elif kk == 'sl':
        a = None if rng.random() < 0.25 else lab(0.07)
        b = None if rng.random() < 0.25 else lab(0.07)
        key = ['sl', a, b, rng.choice([None, None, 1, 2, 3, -1, -1, -2])]
    else:
        ln = n if rng.random() < 0.9 else n + rng.choice([-1, 1])
        if ln == 0:
            ln = n + 1      # NumPy accepts a zero-length Boolean key on any axis (it selects nothing): not a key of the claim
        key = ['mask'] + [rng.randint(0, 1) for _ in range(ln)]
    return {'k': 'lab', 'sub': 'lmodel', 'labels': labels, 'lkind': kind, 'key': key, 'n': n, 'r': 0}


def chain_case(rng):
    """a positional selection followed by label selections on what it returned: the derived axis must answer for
    exactly the labels it kept (an automatic index that lost a label must not go on reading labels as positions)"""
    n = rng.randint(2, 8)
    kind = rng.choice(['auto', 'auto', 'int', 'str'])
    labels = gen.rand_labels(rng, n, kind)
    key = gen.rand_key(rng, n)
    return {'k': 'lab', 'sub': 'chain', 'labels': labels, 'lkind': kind, 'key': key, 'n': n, 'r': rng.randint(0, 10 ** 6),
            'axis': rng.randint(0, 1), 'cls': rng.choice(['series', 'frame', 'frame_go', 'index'])}


def eval_chain(ctx, c, outs):
    import static_frame as sf
    fails = []
    n, kind, key, r = c['n'], c['lkind'], c['key'], c['r']
    vals = [untok(t) for t in c['labels']]
    ref = ref_positions(key, n)
    if outs and not isinstance(ref, tuple):
        want = 'ok (' + ' '.join(str(i) for i in ref) + ')'
        if outs[0] != want:
            fails.append(Failure('corr', f'chain: key.positions {key} n={n}: model {outs[0]} vs reference {want}', c))
    if isinstance(ref, tuple) or key[0] == 'int' or len(set(ref)) != len(ref):
        return fails
    ctx.count(f'lab_chain_{c["cls"]}_{kind}')
    data = [10 * i for i in range(n)]
    pk = gen.key_to_py(key)
    idx_arg = None if kind == 'auto' else vals
    try:
        if c['cls'] == 'series':
            src = sf.Series(data, index=idx_arg)
            res = src.iloc[pk]
            look = lambda l: res.loc[l]
            ridx = res.index
        elif c['cls'] == 'index':
            src = sf.Series(data, index=idx_arg).index
            res = src.iloc[pk]
            look = lambda l: data[ref[res.loc_to_iloc(l)]]
            ridx = res
        else:
            cls = sf.Frame if c['cls'] == 'frame' else sf.FrameGO
            if c['axis'] == 0:
                src = cls.from_items((('v', data), ('w', [str(i) for i in range(n)])), index=idx_arg)
                res = src.iloc[pk]
                look = lambda l: res.loc[l, 'v']
                ridx = res.index
            else:
                src = cls(np.array([data, [d + 1 for d in data]]), columns=idx_arg)
                res = src.iloc[:, pk]
                look = lambda l: res[l].values.tolist()[0]
                ridx = res.columns
    except Exception as ex:
        return fails + [Failure('oracle', f'chain: positional selection {key} on {c["cls"]} raised {type(ex).__name__}: {ex}', c)]
    labs = list(range(n)) if kind == 'auto' else vals
    kept = {tok(labs[i]): i for i in ref}
    if [tok(x) for x in ridx] != [tok(labs[i]) for i in ref]:
        fails.append(Failure('oracle', f'chain: {c["cls"]} iloc {key}: labels {list(ridx)!r}, expected those at positions {ref}', c))
        return fails
    for j, l in enumerate(labs):
        t = tok(l)
        try:
            got = look(l)
            err = None
        except Exception as ex:
            got, err = None, ex
        isin = l in ridx
        if t in kept:
            if err is not None or got != data[kept[t]] or not isin:
                fails.append(Failure('oracle', f'chain: after {c["cls"]} (labels {labs}) iloc {key}, label {l!r} reads {got!r} / raised {type(err).__name__ if err else None} / in={isin}; expected the value {data[kept[t]]} of original position {kept[t]}', c))
        else:
            if err is None or isin:
                fails.append(Failure('oracle', f'chain: after {c["cls"]} (labels {labs}) iloc {key}, the dropped label {l!r} reads {got!r} (in={isin}) instead of raising a lookup error', c))
    return fails


def lmodel_line(c):
    from sfv.props.ixcommon import Interner
    it = Interner()
    c['_it'] = it
    vals = [untok(t) for t in c['labels']]
    ix = f'(a {c["n"]})' if c['lkind'] == 'auto' else '(m ' + ' '.join(it.lab(v) for v in vals) + ')'
    key = c['key']
    f = lambda t: 'N' if t is None else it.lab(untok(t))
    if key[0] == 'lab':
        w = f'(lab {f(key[1])})'
    elif key[0] == 'list':
        w = '(list ' + ' '.join(f(t) for t in key[1:]) + ')'
    elif key[0] == 'sl':
        w = f'(sl {f(key[1])} {f(key[2])} {"N" if key[3] is None else key[3]})'
    else:
        w = '(mask ' + ' '.join(str(b) for b in key[1:]) + ')'
    return f'index.cloc {ix} {w}'      # the container route (Index._loc_to_iloc), as Series.loc / Frame.loc use it


def eval_lmodel(ctx, c, outs):
    import static_frame as sf
    from sfv.props.ixcommon import parse_answer, ikey_wire_positions
    fails = []
    n, kind, key = c['n'], c['lkind'], c['key']
    ctx.count(f'lab_lmodel_{key[0]}')
    vals = [untok(t) for t in c['labels']]
    data = [10 * i for i in range(n)]
    if kind == 'auto':
        s = sf.Series(data)
        f = sf.Frame.from_items((('v', data), ('w', [str(i) for i in range(n)])))
    else:
        s = sf.Series(data, index=vals)
        f = sf.Frame.from_items((('v', data), ('w', [str(i) for i in range(n)])), index=vals)
    u = lambda t: None if t is None else untok(t)
    if key[0] == 'lab':
        pk = u(key[1])
    elif key[0] == 'list':
        pk = [u(t) for t in key[1:]]
    elif key[0] == 'sl':
        pk = slice(u(key[1]), u(key[2]), key[3])
    else:
        pk = np.array([bool(b) for b in key[1:]], dtype=bool)
    if not outs:
        return fails
    ans = parse_answer(outs[0])
    if ans[0] == 'bad':
        return [Failure('corr', f'driver refused {lmodel_line(c)}: {outs[0]}', c)]
    routes = (('series.loc[k]', lambda: s.loc[pk], lambda r: r.values.tolist() if isinstance(r, sf.Series) else r, lambda r: list(r.index)),
              ('frame.loc[k, "v"]', lambda: f.loc[pk, 'v'], lambda r: r.values.tolist() if isinstance(r, sf.Series) else r, lambda r: list(r.index)),
              ('frame.loc[k]', lambda: f.loc[pk], lambda r: r['v'].values.tolist() if isinstance(r, sf.Frame) else r.values.tolist()[0], lambda r: list(r.index) if isinstance(r, sf.Frame) else None))
    for desc, fn, vals_of, labs_of in routes:
        try:
            res = fn()
            err = None
        except Exception as ex:
            res, err = None, ex
        if ans[0] == 'err':
            ctx.count('lab_lmodel_err')
            if err is None:
                fails.append(Failure('oracle', f'label route lmodel: {desc} with key {pk!r} over labels {vals!r} returned {res!r}; the Index model refuses the key ({ans[1]})', c))
            continue
        pos = ikey_wire_positions(ans[1], n)
        scalar = ans[1][0] == 'int'
        if any(not 0 <= q < n for q in pos):
            # an automatic index hands integer labels on as positions: one beyond the axis is refused by the array lookup
            ctx.count('lab_lmodel_beyond_axis')
            if err is None:
                fails.append(Failure('oracle', f'label route lmodel: {desc} with key {pk!r} over labels {vals!r} returned {res!r} although the key names a label that is not held', c))
            continue
        if err is not None:
            if len(set(pos)) != len(pos) and type(err).__name__ == 'ErrorInitIndexNonUnique':
                ctx.count('lab_lmodel_repeated_label_refused')      # a result with a repeated label is refused, never built
                continue
            fails.append(Failure('oracle', f'label route lmodel: {desc} with key {pk!r} over labels {vals!r} raised {type(err).__name__}: {err}; the Index model addresses positions {pos}', c))
            continue
        got = vals_of(res)
        if scalar:
            if got != data[pos[0]]:
                fails.append(Failure('oracle', f'label route lmodel: {desc} with key {pk!r} over labels {vals!r} gave {got!r}, the model addresses position {pos[0]}', c))
            continue
        exp = [data[i] for i in pos]
        if not isinstance(got, list) or got != exp:
            fails.append(Failure('oracle', f'label route lmodel: {desc} with key {pk!r} over labels {vals!r} selected {got!r}, the model addresses positions {pos}', c))
            continue
        labs = labs_of(res)
        if labs is not None and [tok(x) for x in labs] != [tok(list(s.index)[i]) for i in pos]:
            fails.append(Failure('oracle', f'label route lmodel: {desc} with key {pk!r}: labels of the result {labs!r} are not the labels at positions {pos}', c))
    return fails


def eval_lab(ctx, c):
    """label-route specifics; reference = dict label -> position / explicit period arithmetic"""
    import datetime
    import static_frame as sf
    fails = []
    sub, r, n = c['sub'], c['r'], c['n']
    ctx.count(f'lab_{sub}')

    def bad(what):
        fails.append(Failure('oracle', f'label route {sub}: {what}', c))

    if sub in ('dt', 'dt_slice'):
        base = np.datetime64('2020-01-15', 'D')
        dates = [base + np.timedelta64(d, 'D') for d in c['days']]
        ix = sf.IndexDate(dates)
        s = sf.Series(list(range(n)), index=ix)
        f = sf.Frame.from_items((('v', list(range(n))), ('w', [str(i) for i in range(n)])), index=ix)
        pick = dates[r % n]
        ym = str(pick)[:7]
        yy = str(pick)[:4]
        in_month = [i for i, d in enumerate(dates) if str(d)[:7] == ym]
        in_year = [i for i, d in enumerate(dates) if str(d)[:4] == yy]
        if sub == 'dt':
            forms = [(ym, in_month), (np.datetime64(ym, 'M'), in_month), (yy, in_year), (np.datetime64(yy, 'Y'), in_year),
                     (str(pick), None), (pick.astype(datetime.date), None), (pick, None)]
            key, exp = forms[(r // 7) % len(forms)]
            try:
                got = s.loc[key]
                fgot = f.loc[key]
            except Exception as ex:
                bad(f'key {key!r} raised {type(ex).__name__}: {ex}')
                return fails
            if exp is None:
                if isinstance(got, sf.Series) or got != r % n:
                    bad(f'full-resolution key {key!r} returned {got!r}, expected the element {r % n}')
                if not isinstance(fgot, sf.Series) or fgot.values.tolist() != [r % n, str(r % n)]:
                    bad(f'frame.loc[{key!r}] returned {fgot!r}')
            else:
                if not isinstance(got, sf.Series) or got.values.tolist() != exp or [str(x) for x in got.index] != [str(dates[i]) for i in exp]:
                    bad(f'period key {key!r} selected {getattr(got, "values", got)!r}, expected positions {exp}')
                if not isinstance(fgot, sf.Frame) or fgot['v'].values.tolist() != exp:
                    bad(f'frame.loc[{key!r}] selected {fgot!r}, expected positions {exp}')
            # an absent period is a lookup error, never data
            try:
                res = s.loc['1999-01']
                if not (isinstance(res, sf.Series) and len(res) == 0):
                    bad(f"absent month returned {res!r}")
            except (KeyError, IndexError):
                pass
        else:
            a, b = sorted([r % n, (r // 11) % n])
            ka, kb = str(dates[a])[:7], str(dates[b])[:7]
            exp = [i for i, d in enumerate(dates) if ka <= str(d)[:7] <= kb]
            try:
                got = s.loc[ka:kb]
            except Exception as ex:
                bad(f'slice {ka}:{kb} raised {type(ex).__name__}: {ex}')
                return fails
            if got.values.tolist() != exp:
                bad(f'month slice {ka}:{kb} selected {got.values.tolist()}, expected {exp} (stop period inclusive)')
            # full-resolution label slice includes its stop label
            got2 = s.loc[dates[a]:dates[b]]
            if got2.values.tolist() != list(range(a, b + 1)):
                bad(f'date slice selected {got2.values.tolist()}, expected {list(range(a, b + 1))}')
            # start and stop at independent resolutions (year / month / day / open): every label from the first
            # instant of the start period to the last instant of the stop period
            def form(d, res):
                return None if res == 3 else str(d)[: (4, 7, 10)[res]]
            ra, rb = (r // 3) % 4, (r // 13) % 4
            ka2, kb2 = form(dates[a], ra), form(dates[b], rb)
            lo = '0000' if ka2 is None else ka2
            exp2 = [i for i, d in enumerate(dates) if (ka2 is None or str(d)[:len(ka2)] >= ka2) and (kb2 is None or str(d)[:len(kb2)] <= kb2)]
            for mk in (lambda k: k, lambda k: None if k is None else np.datetime64(k)):
                sa, sb = mk(ka2), mk(kb2)
                try:
                    got3 = s.loc[sa:sb]
                    g3 = got3.values.tolist()
                    fg3 = f.loc[sa:sb, 'v'].values.tolist()
                except Exception as ex:
                    bad(f'slice {sa!r}:{sb!r} raised {type(ex).__name__}: {ex}')
                    continue
                if g3 != exp2 or fg3 != exp2:
                    bad(f'slice {sa!r}:{sb!r} selected {g3} / frame {fg3}, expected {exp2} (dates {[str(d) for d in dates]})')
        return fails

    labels = [untok(t) for t in c['labels']]
    kind = c['lkind']
    if kind == 'auto':
        s = sf.Series([10 * i for i in range(n)])
        f = sf.Frame.from_items((('v', [10 * i for i in range(n)]), ('w', [str(i) for i in range(n)])))
    elif kind == 'date':
        s = sf.Series([10 * i for i in range(n)], index=sf.IndexDate(labels))
        f = sf.Frame.from_items((('v', [10 * i for i in range(n)]), ('w', [str(i) for i in range(n)])), index=sf.IndexDate(labels))
    else:
        s = sf.Series([10 * i for i in range(n)], index=labels)
        f = sf.Frame.from_items((('v', [10 * i for i in range(n)]), ('w', [str(i) for i in range(n)])), index=labels)
    labels = list(s.index)
    if sub == 'boolseries':
        perm = c['perm'][: max(1, n - (r % 2))]          # partial coverage: uncovered labels are False
        key_labels = [labels[i] for i in perm]
        bits = {tok(labels[i]): bool(c['bits'][i]) for i in perm}
        key = sf.Series([bits[tok(l)] for l in key_labels], index=key_labels)
        exp = [i for i, l in enumerate(labels) if bits.get(tok(l), False)]
        try:
            got = s.loc[key]
            fgot = f.loc[key]
        except Exception as ex:
            bad(f'Boolean Series key raised {type(ex).__name__}: {ex}')
            return fails
        if got.values.tolist() != [10 * i for i in exp] or [tok(x) for x in got.index] != [tok(labels[i]) for i in exp]:
            bad(f'Boolean Series key over {key_labels} selected {got.values.tolist()}, expected positions {exp} (alignment by label)')
        if fgot['v'].values.tolist() != [10 * i for i in exp]:
            bad(f'frame.loc[Boolean Series] selected {fgot["v"].values.tolist()}, expected positions {exp}')
    elif sub == 'iloc_wrap':
        keys = [r % n, -(r % n) - 1, slice(r % n, None), ([r % n, 0] if r % n else [0]), slice(None, None, -1)]
        key = keys[(r // 5) % len(keys)]
        try:
            got = s.loc[sf.ILoc[key]]
            exp = s.iloc[key]
            g2 = f.loc[sf.ILoc[key], 'v']
            e2 = f.iloc[key, 0]
        except Exception as ex:
            bad(f'ILoc[{key!r}] raised {type(ex).__name__}: {ex}')
            return fails
        same = (got.equals(exp) if isinstance(exp, sf.Series) else got == exp)
        same2 = (g2.equals(e2, compare_name=True) if isinstance(e2, sf.Series) else g2 == e2)
        ref = [10 * i for i in range(n)][key] if not isinstance(key, list) else [10 * (i % n) for i in key]
        gv = got.values.tolist() if isinstance(got, sf.Series) else got
        if not same or not same2 or gv != ref:
            bad(f'loc[ILoc[{key!r}]] = {gv}, positional reference {ref}')
    elif sub == 'absent':
        absent = {'auto': [-1, n, n + 3, 'a', 2.5], 'int': [-99, 1000, 'a'], 'str': ['__absent__', 7, ''], 'mixed': ['__absent__', 77, 4.25],
                  'date': [np.datetime64('1999-01-01'), '1999-01-01']}[kind]
        a = absent[r % len(absent)]
        if any(tok(a) == tok(l) or (not isinstance(a, str) and not isinstance(l, str) and l is not None and a == l) for l in labels):
            return fails
        for desc, fn in (('series.loc[absent]', lambda: s.loc[a]), ('series.loc[[present, absent]]', lambda: s.loc[[labels[0], a]]),
                         ('frame.loc[absent]', lambda: f.loc[a]), ('frame.loc[absent, "v"]', lambda: f.loc[a, 'v']),
                         ('label in index', lambda: a in s.index), ('frame[absent column]', lambda: f['__nocol__']),
                         ('series.loc[absent:]', lambda: s.loc[a:])):
            try:
                res = fn()
            except (KeyError, IndexError, TypeError, ValueError) as ex:
                continue
            except Exception as ex:
                if err_cat(ex) == 'lookup' or type(ex).__name__ in ('LocInvalid', 'LocEmpty'):
                    continue
                bad(f'{desc} with {a!r} raised {type(ex).__name__} (not a lookup error): {ex}')
                continue
            except Exception as ex:
                bad(f'{desc} with {a!r} raised {type(ex).__name__} (not a lookup error): {ex}')
                continue
            if desc == 'label in index':
                if res:
                    bad(f'{a!r} in index is True although the label is not held')
            elif desc == 'series.loc[absent:]':
                # an open slice from an absent label may legitimately be empty; it must not hold any data
                if isinstance(res, sf.Series) and len(res) == 0:
                    continue
                if kind == 'date':
                    continue
                bad(f'{desc} with absent label {a!r} returned data {res.values.tolist() if hasattr(res, "values") else res!r}')
            else:
                bad(f'{desc} with absent label {a!r} returned {res!r} instead of raising a lookup error')
    return fails


def ref_positions(key, n):
    """Python reference (independent of the Lean model): positions or ('err', cat)."""
    k = key[0]
    try:
        if k == 'all':
            return list(range(n))
        if k == 'int':
            i = key[1]
            if -n <= i < n:
                return [i % n] if n else ('err', 'lookup')
            return ('err', 'lookup')
        if k == 'sl':
            if key[3] == 0:
                return ('err', 'value')
            return list(range(n))[slice(key[1], key[2], key[3])]
        if k == 'list':
            out = []
            for i in key[1:]:
                if not -n <= i < n:
                    return ('err', 'lookup')
                out.append(i % n)
            return out
        if k == 'mask':
            if len(key) - 1 != n:
                return ('err', 'lookup')
            return [i for i, b in enumerate(key[1:]) if b]
    except Exception as ex:  # pragma: no cover
        return ('err', 'other')


def label_key(key, labels, rng_tag):
    """Translate a positional key into the equivalent label key (for loc routes). Returns (pykey, ok)
    ok False when the key kind has no label form (e.g. slices with negative steps are kept positional)."""
    k = key[0]
    n = len(labels)
    if k == 'all':
        return slice(None), True
    if k == 'int':
        if -n <= key[1] < n and n:
            return labels[key[1]], True
        return None, False
    if k == 'list':
        if all(-n <= i < n for i in key[1:]) and n:
            return [labels[i] for i in key[1:]], True
        return None, False
    if k == 'mask':
        if len(key) - 1 == n:
            return np.array([bool(b) for b in key[1:]], dtype=bool), True
        return None, False
    if k == 'sl':
        a, b, st = key[1], key[2], key[3]
        if st not in (None, 1, 2, 3):
            return None, False
        if (a is not None and not 0 <= a < n) or (b is not None and not 0 <= b < n):
            return None, False
        # a label that IS None cannot be written as a slice endpoint (slice(None, x) is the open start): no label form
        if (a is not None and labels[a] is None) or (b is not None and labels[b] is None):
            return None, False
        return slice(None if a is None else labels[a], None if b is None else labels[b], st), True
    return None, False


def eval_frame(ctx, c, outs):
    import static_frame as sf
    fails = []
    spec = c['spec']
    n, m = spec['rows'], len(spec['cols'])
    route = c['route']
    f = gen.build_frame(spec)
    colt = gen.spec_cols_tokens(spec)
    il = [tok(x) for x in f.index]
    cl = [tok(x) for x in f.columns]
    rk, ck = c['rk'], c['ck']
    rpos, cpos = ref_positions(rk, n), ref_positions(ck, m)
    ctx.count(f'route_{route}')
    ctx.count(f'rk_{rk[0]}')
    ctx.count(f'ck_{ck[0]}')
    ctx.count(f'index_{spec["index"]["kind"]}')
    ctx.count(f'layout_blocks_{min(len(spec["layout"]), 4)}')
    # correspondence of the position model
    if outs:
        for key, pos, out, nm in ((rk, rpos, outs[0], 'row'), (ck, cpos, outs[1], 'col')):
            got = gen.parse_ok_list(out)
            if isinstance(pos, tuple):
                if not (isinstance(got, tuple) and got[1] == pos[1]):
                    fails.append(Failure('corr', f'Key.positions {key}: model {out} vs reference {pos}', c))
            elif got != pos:
                fails.append(Failure('corr', f'Key.positions {key}: model {out} vs reference {pos}', c))

    rlabels = list(f.index)
    clabels = list(f.columns)
    label_route = route in ('loc2', 'loc_r', 'getitem', 'sloc')
    # equivalent label forms are only exact when the mapping position->label is what we feed
    prk, pck = gen.key_to_py(rk), gen.key_to_py(ck)
    if (c['spec']['rows'] + len(c['spec']['cols'])) % 3 == 0:
        # a Boolean row mask given as a plain list is a mask too (one True selects one row, not a column); a Boolean LIST as
        # column key is read as positions by the block manager and as a mask by the index, and is refused (never data)
        prk = prk.tolist() if isinstance(prk, np.ndarray) and prk.dtype == bool else prk
        ctx.count('row_mask_keys_as_lists')
    use_rk, use_ck = prk, pck
    if label_route:
        lrk, ok1 = label_key(rk, rlabels, 'r')
        lck, ok2 = label_key(ck, clabels, 'c')
        if route == 'loc2' and not (ok1 and ok2):
            route = 'iloc2'
        elif route in ('loc_r', 'sloc') and not ok1:
            route = 'iloc_r' if route == 'loc_r' else 'series'
        elif route == 'getitem' and not ok2:
            route = 'iloc2'
        else:
            use_rk, use_ck = lrk, lck
            # Frame.loc reads a bare tuple as (row key, column key): a hierarchical row label needs HLoc
            if isinstance(use_rk, tuple) and route in ('loc2', 'loc_r'):
                use_rk = sf.HLoc[use_rk]
            if isinstance(use_ck, tuple) and route in ('loc2',):
                use_ck = sf.HLoc[use_ck]
            # label slices are stop-inclusive: adjust the positional reference
            if rk[0] == 'sl' and route in ('loc2', 'loc_r', 'sloc'):
                rpos = incl_positions(rk, n)
            if ck[0] == 'sl' and route in ('loc2', 'getitem'):
                cpos = incl_positions(ck, m)
            # hierarchical labels given as tuples inside a list are fine; a lone tuple is a full-depth key
    # a tuple label inside a python list on an IndexHierarchy is ok; wrap single tuples for flat 'mixed'?
    try:
        if route == 'iloc2':
            res = f.iloc[use_rk, use_ck]
            dims = (rk[0] == 'int', ck[0] == 'int')
        elif route == 'iloc_r':
            res = f.iloc[use_rk]
            cpos, ck = list(range(m)), ['all']
            dims = (rk[0] == 'int', False)
        elif route == 'loc2':
            res = f.loc[use_rk, use_ck]
            dims = (rk[0] == 'int', ck[0] == 'int')
        elif route == 'loc_r':
            res = f.loc[use_rk]
            cpos, ck = list(range(m)), ['all']
            dims = (rk[0] == 'int', False)
        elif route == 'getitem':
            res = f[use_ck]
            rpos, rk = list(range(n)), ['all']
            dims = (False, ck[0] == 'int')
        elif route in ('series', 'sloc'):
            if m == 0:
                return fails
            j = 0
            s = f.iloc[:, j]
            res = s.loc[use_rk] if route == 'sloc' else s.iloc[use_rk]
            cpos, ck = [j], ['int', j]
            dims = (rk[0] == 'int', True)
        else:
            raise AssertionError(route)
        real = ('ok', res)
    except Exception as ex:
        real = ('err', err_cat(ex), ex)

    exp_err = isinstance(rpos, tuple) or isinstance(cpos, tuple)
    # a list key that repeats a position would produce duplicate labels: the index must reject it (C02)
    dup = (not exp_err) and ((rk[0] == 'list' and len(set(rpos)) != len(rpos) and not (dims_int(ck) and False))
                             or (ck[0] == 'list' and len(set(cpos)) != len(cpos)))
    if dup:
        ctx.count('duplicate_list_key')
        if real[0] == 'ok':
            r = real[1]
            labs = []
            if isinstance(r, sf.Frame):
                labs = [list(r.index), list(r.columns)]
            elif isinstance(r, sf.Series):
                labs = [list(r.index)]
            for l in labs:
                if len(set(map(tok, l))) != len(l):
                    fails.append(Failure('oracle', f'{route} rk={rk} ck={ck} returned a container with duplicate labels', c))
            return fails
        if real[1] not in ('nonUnique', 'indexInit'):
            fails.append(Failure('oracle', f'{route} rk={rk} ck={ck} repeated positions: expected non-unique index error, got {type(real[2]).__name__}: {real[2]}', c))
        return fails
    if exp_err:
        ctx.count('expected_error')
        if real[0] != 'err':
            fails.append(Failure('oracle', f'{route} rk={rk} ck={ck} should raise a lookup error but returned {type(real[1]).__name__}', c))
        return fails
    if real[0] == 'err':
        fails.append(Failure('oracle', f'{route} rk={rk} ck={ck} raised {type(real[2]).__name__}: {real[2]} but the key addresses rows {rpos} cols {cpos}', c,
                             detail={'exc': type(real[2]).__name__, 'cpos': cpos, 'rpos': rpos}))
        return fails
    res = real[1]
    exp_cells = [[colt[j][i] for i in rpos] for j in cpos]  # column-major
    exp_rl = [il[i] for i in rpos]
    exp_cl = [cl[j] for j in cpos]
    what = None
    if dims == (True, True):
        ctx.count('kind_element')
        got = tok(res)
        if isinstance(res, (sf.Series, sf.Frame)):
            what = f'expected an element, got {type(res).__name__}'
        elif not cell_equal(got, exp_cells[0][0]):
            what = f'element {got} != {exp_cells[0][0]}'
    elif dims == (True, False):
        ctx.count('kind_row_series')
        if not isinstance(res, sf.Series):
            what = f'expected a Series (row), got {type(res).__name__}'
        else:
            got_l = [tok(x) for x in res.index]
            got_v = array_toks(res.values)
            exp_v = [col[0] for col in exp_cells]
            if got_l != exp_cl:
                what = f'row series labels {got_l} != {exp_cl}'
            elif not all(cell_equal(a, b) for a, b in zip(got_v, exp_v)) or len(got_v) != len(exp_v):
                what = f'row series values {got_v} != {exp_v}'
            elif tok(res.name) != exp_rl[0]:
                what = f'row series name {tok(res.name)} != row label {exp_rl[0]}'
    elif dims == (False, True):
        ctx.count('kind_col_series')
        if not isinstance(res, sf.Series):
            what = f'expected a Series (column), got {type(res).__name__}'
        else:
            got_l = [tok(x) for x in res.index]
            got_v = array_toks(res.values)
            if got_l != exp_rl:
                what = f'column series labels {got_l} != {exp_rl}'
            elif got_v != exp_cells[0]:
                what = f'column series values {got_v} != {exp_cells[0]}'
            elif route not in ('series', 'sloc') and tok(res.name) != exp_cl[0]:
                what = f'column series name {tok(res.name)} != column label {exp_cl[0]}'
    else:
        ctx.count('kind_frame')
        if not isinstance(res, sf.Frame):
            what = f'expected a Frame, got {type(res).__name__}'
        else:
            got_rl = [tok(x) for x in res.index]
            got_cl = [tok(x) for x in res.columns]
            if got_rl != exp_rl or got_cl != exp_cl:
                what = f'frame labels {got_rl} x {got_cl} != {exp_rl} x {exp_cl}'
            elif res.shape != (len(exp_rl), len(exp_cl)):
                what = f'shape {res.shape}'
            else:
                for jj in range(len(exp_cl)):
                    got_v = array_toks(res._blocks._extract_array(column_key=jj))
                    if got_v != exp_cells[jj]:
                        what = f'frame column {jj} values {got_v} != {exp_cells[jj]}'
                        break
    if what:
        fails.append(Failure('oracle', f'{route} rk={rk} ck={ck} on index {spec["index"]["kind"]}: {what}', c))
    return fails


def dims_int(k):
    return k[0] == 'int'


def incl_positions(key, n):
    a, b, st = key[1], key[2], key[3]
    return list(range(n))[slice(a, None if b is None else b + 1, st)]


def cell_equal(a, b):
    """A row of mixed dtypes is consolidated to one array; numeric cells may widen (i:1 -> f:1.0)."""
    if a == b:
        return True
    ka, kb = a.partition(':')[0], b.partition(':')[0]
    if {a, b} == {'nat', 'N'}:
        return True  # NumPy's datetime64 -> object conversion stores NaT as None (both are missing markers)
    if {ka, kb} == {'s', 'y'}:
        return a[2:] == b[2:]  # str x bytes resolves to str by design (outside the claim of C07)
    if {ka, kb} <= {'d', 'D', 'DT'} or {ka, kb} <= {'td', 'o'}:
        # datetime64 -> object conversion of NumPy yields datetime.date / datetime / timedelta objects
        try:
            va, vb = untok_time(a), untok_time(b)
            return va == vb
        except Exception:
            return False
    num = {'i', 'f', 'c', 'b'}
    if ka in num and kb in num:
        try:
            return complex(untok_num(a)) == complex(untok_num(b))
        except Exception:
            return False
    return False


def untok_time(t):
    import datetime
    if t.startswith('DT:'):
        return np.datetime64(datetime.datetime.fromisoformat(t[3:]))
    if t.startswith('D:'):
        return np.datetime64(t[2:], 'D')
    if t.startswith('o:timedelta:'):
        return np.timedelta64(eval(t[len('o:timedelta:'):], {'datetime': datetime}))
    return untok(t)


def untok_num(t):
    v = untok(t)
    return v


# ----------------------------------------------------------------------------- the Lean Frame model (SFModel.FrameSel)
# `Fr.iloc` mirrors Frame._extract (blocks first, then the row index, then the columns; element / Series / Frame),
# `Fr.loc` = Index._loc_to_iloc on each axis (columns first) followed by `Fr.iloc`; theorems SF.C04.frame_* are about them.
# Every 'frame' case whose axes the flat-index model covers and every 'lmodel' case is sent through the driver ops
# frame.iloc / frame.loc and the WHOLE answer is compared with the real Frame.iloc / Frame.loc / Frame.__getitem__ result.
_FM = {}     # id(case) -> what model_lines sent (interners, the real calls); consumed by evaluate of the same case


def _fm_ix_wire(ix, auto, lit):
    if auto:
        return f'(a {len(ix)})'
    return '(m ' + ' '.join(lit.lab(x) for x in ix) + ')'


def _fm_fr_wire(f, auto_r, auto_c, cit, lit):
    from sfv.tbwire import tb_wire_from_blocks
    tb = f._blocks
    return (f'(fr {_fm_ix_wire(f.index, auto_r, lit)} {_fm_ix_wire(f.columns, auto_c, lit)} '
            f'{tb_wire_from_blocks(tb._blocks, tb._shape[0], cit)})')


def _fm_lkey_wire(pk, lit):
    if isinstance(pk, slice):
        g = lambda v: 'N' if v is None else lit.lab(v)
        return f'(sl {g(pk.start)} {g(pk.stop)} {"N" if pk.step is None else int(pk.step)})'
    if isinstance(pk, np.ndarray):
        return '(mask ' + ' '.join(str(int(b)) for b in pk) + ')'
    if isinstance(pk, list):
        return '(list ' + ' '.join(lit.lab(v) for v in pk) + ')'
    return f'(lab {lit.lab(pk)})'


def _fm_null(key):
    return key[0] == 'all' or (key[0] == 'sl' and key[1] is None and key[2] is None and key[3] is None)


def _fm_interners():
    from sfv.props.ixcommon import Interner as LabInterner
    from sfv.tbwire import Interner as CellInterner
    return CellInterner(), LabInterner()


def fm_frame_lines(c):
    """the frame-level driver line of a 'frame' case ([] when an axis is outside the flat-index model)"""
    spec, route, rk, ck = c['spec'], c['route'], c['rk'], c['ck']
    m = len(spec['cols'])
    f = gen.build_frame(spec)
    rlabels, clabels = list(f.index), list(f.columns)
    lrk = lck = None
    if route in ('loc2', 'loc_r', 'getitem', 'sloc'):
        # the same fall-back to the positional route as eval_frame
        lrk, ok1 = label_key(rk, rlabels, 'r')
        lck, ok2 = label_key(ck, clabels, 'c')
        if route == 'loc2' and not (ok1 and ok2):
            route = 'iloc2'
        elif route in ('loc_r', 'sloc') and not ok1:
            route = 'iloc_r' if route == 'loc_r' else 'series'
        elif route == 'getitem' and not ok2:
            route = 'iloc2'
    if route in ('series', 'sloc') and m == 0:
        return []
    prk, pck = gen.key_to_py(rk), gen.key_to_py(ck)
    null = ['all']
    if route == 'iloc2':
        op, krk, kck, fn, desc = 'iloc', rk, ck, (lambda: f.iloc[prk, pck]), 'iloc[rk, ck]'
    elif route == 'iloc_r':
        op, krk, kck, fn, desc = 'iloc', rk, null, (lambda: f.iloc[prk]), 'iloc[rk]'
    elif route == 'series':
        # the Frame route to the same Series: column 0 addressed as an integer
        op, krk, kck, fn, desc = 'iloc', rk, ['int', 0], (lambda: f.iloc[prk, 0]), 'iloc[rk, 0]'
    elif route == 'loc2':
        op, krk, kck, fn, desc = 'loc', rk, ck, (lambda: f.loc[lrk, lck]), 'loc[rk, ck]'
    elif route == 'loc_r':
        op, krk, kck, fn, desc = 'loc', rk, null, (lambda: f.loc[lrk]), 'loc[rk]'
        lck = slice(None)
    elif route == 'getitem':
        op, krk, kck, fn, desc = 'loc', null, ck, (lambda: f[lck]), 'getitem[ck]'
        lrk = slice(None)
    else:
        c0 = clabels[0]
        op, krk, kck, fn, desc = 'loc', rk, ['int', 0], (lambda: f.loc[lrk, c0]), 'loc[rk, c0]'
        lck = c0
    # which axes the flat-index model covers
    for spec_ix, key in ((spec['index'], krk), (spec['columns'], kck)):
        kind = spec_ix['kind']
        if _fm_null(key):
            continue            # the axis is handed on as it is: its labels are opaque
        if kind == 'ih':
            return []           # IndexHierarchy._extract_iloc / _loc_to_iloc are not Index's
        if op == 'loc' and (kind == 'date' or 'N' in spec_ix['labels']):
            return []           # IndexDate._loc_to_iloc is its own; None as a label key means "no key"
    cit, lit = _fm_interners()
    fr = _fm_fr_wire(f, spec['index']['kind'] == 'auto', spec['columns']['kind'] == 'auto', cit, lit)
    if op == 'iloc':
        line = f'frame.iloc {fr} {gen.key_to_wire(krk)} {gen.key_to_wire(kck)}'
    else:
        line = f'frame.loc {fr} {_fm_lkey_wire(lrk, lit)} {_fm_lkey_wire(lck, lit)}'
    _FM[id(c)] = {'cit': cit, 'lit': lit, 'calls': [(f'{op} {desc} rk={krk} ck={kck}', fn, krk[0] == 'int')]}
    return [line]


def fm_lmodel_frame(c):
    import static_frame as sf
    n = c['n']
    vals = [untok(t) for t in c['labels']]
    data = [10 * i for i in range(n)]
    items = (('v', data), ('w', [str(i) for i in range(n)]))
    return sf.Frame.from_items(items) if c['lkind'] == 'auto' else sf.Frame.from_items(items, index=vals)


def fm_lmodel_lines(c):
    """Frame.loc[k, 'v'] and Frame.loc[k] of an 'lmodel' case through the Frame model"""
    f = fm_lmodel_frame(c)
    key = c['key']
    u = lambda t: None if t is None else untok(t)
    if key[0] == 'lab':
        pk = u(key[1])
    elif key[0] == 'list':
        pk = [u(t) for t in key[1:]]
    elif key[0] == 'sl':
        pk = slice(u(key[1]), u(key[2]), key[3])
    else:
        pk = np.array([bool(b) for b in key[1:]], dtype=bool)
    cit, lit = _fm_interners()
    fr = _fm_fr_wire(f, c['lkind'] == 'auto', False, cit, lit)
    kw = _fm_lkey_wire(pk, lit)
    scalar = key[0] == 'lab'
    _FM[id(c)] = {'cit': cit, 'lit': lit, 'calls': [
        (f'loc lmodel[k, "v"] k={key} labels={c["labels"]}', (lambda: f.loc[pk, 'v']), scalar),
        (f'loc lmodel[k] k={key} labels={c["labels"]}', (lambda: f.loc[pk]), scalar)]}
    return [f'frame.loc {fr} {kw} (lab {lit.lab("v")})', f'frame.loc {fr} {kw} (sl N N N)']


def fm_eval(ctx, c, outs):
    st = _FM.pop(id(c), None)
    if st is None or not outs:
        return []
    fails = []
    for (desc, fn, row_int), out in zip(st['calls'], outs):
        fails += fm_compare(ctx, c, st, desc, fn, row_int, out)
    return fails


def _fm_short(r, n=200):
    s = repr(r).replace('\n', ' ')
    return s if len(s) <= n else s[:n] + '...'


def fm_compare(ctx, c, st, desc, fn, row_int, out):
    """kind of result, labels of both axes (and whether the index is still the automatic one), every cell token, the name,
    dtypes of the kept columns, error vs data (and the error category): model answer vs the real call"""
    import static_frame as sf
    from sfv.props.ixcommon import parse_answer
    from sfv.tbwire import real_tb_view
    cit, lit = st['cit'], st['lit']
    ans = parse_answer(out)

    def bad(what):
        return [Failure('corr', f'Frame model vs Frame.{desc}: {what}', c)]
    if ans[0] == 'bad':
        return bad(f'the driver refused the line: {out}')
    try:
        res, err = fn(), None
    except Exception as ex:
        res, err = None, ex
    ctx.count('fmodel_' + desc.split(' ')[0])
    ctx.count('fmodel_route_' + desc.split(' ')[1].split('[')[0])
    if ans[0] == 'err':
        ctx.count(f'fmodel_err_{ans[1]}')
        if err is None:
            return bad(f'the model refuses the key ({ans[1]}), the real call returned {_fm_short(res)}')
        if err_cat(err) != ans[1] and not (ans[1] == 'nonUnique' and err_cat(err) == 'indexInit'):
            if ans[1] == 'lookup' and isinstance(err, TypeError):
                # a label that is no integer handed on as a position by an automatic index: NumPy / the slice arithmetic
                # answer TypeError where the model (Index.asInt) says lookup
                ctx.count('fmodel_err_lookup_is_TypeError')
                return []
            return bad(f'the model refuses the key with {ans[1]}, the real call raised {type(err).__name__} ({err_cat(err)}): {err}')
        return []
    if err is not None:
        return bad(f'the real call raised {type(err).__name__}: {err}; the model answers {out[:160]}')
    sx = ans[1]
    kind = sx[0]
    ctx.count(f'fmodel_kind_{kind}')

    def ix_view(ix):
        return ['A' if getattr(ix, '_map', 0) is None else 'M'] + [lit.lab(x) for x in ix]
    if kind == 'elem':
        if isinstance(res, (sf.Series, sf.Frame)):
            return bad(f'the model answers an element, the real call a {type(res).__name__}')
        if not cell_equal(tok(res), cit.token(sx[1])):
            return bad(f'element {tok(res)} vs model {cit.token(sx[1])}')
        return []
    if kind == 'line':
        if not isinstance(res, sf.Series):
            return bad(f'the model answers a Series, the real call {_fm_short(res)}')
        mv = [cit.token(a) for a in sx[1]]
        gv = array_toks(res.values)
        if ix_view(res.index) != sx[2]:
            return bad(f'Series labels {ix_view(res.index)} vs model {sx[2]}')
        if lit.lab(res.name) != sx[3]:
            return bad(f'Series name {res.name!r} ({lit.lab(res.name)}) vs model {sx[3]}')
        # a row is consolidated to one array: numeric cells may widen (cell_equal); a column keeps its array
        same = len(gv) == len(mv) and (all(cell_equal(a, b) for a, b in zip(gv, mv)) if row_int else gv == mv)
        if not same:
            return bad(f'Series values {gv} vs model {mv}')
        return []
    if kind != 'frame':
        return bad(f'unreadable answer {out[:160]}')
    if not isinstance(res, sf.Frame):
        return bad(f'the model answers a Frame, the real call {_fm_short(res)}')
    if ix_view(res.index) != sx[1] or ix_view(res.columns) != sx[2]:
        return bad(f'Frame labels {ix_view(res.index)} x {ix_view(res.columns)} vs model {sx[1]} x {sx[2]}')
    tbx = sx[3]
    cols, dts = [], []
    for b in tbx[2:]:
        if b[0] == 'd1':
            cols.append([cit.token(a) for a in b[2:]])
            dts.append(b[1])
        else:
            for col in b[2:]:
                cols.append([cit.token(a) for a in col])
                dts.append(b[1])
    real = real_tb_view(res._blocks)
    if int(tbx[1]) != real['rows'] or res.shape != (len(sx[1]) - 1, len(sx[2]) - 1):
        return bad(f'shape {res.shape} (block rows {real["rows"]}) vs model rows {tbx[1]}, labels {len(sx[1]) - 1} x {len(sx[2]) - 1}')
    if cols != real['cols'] or dts != real['dtypes']:
        return bad(f'cells {real["cols"]} dtypes {real["dtypes"]} vs model {cols} {dts}')
    return []


def classify(f):
    c, d = f.case, f.detail or {}
    if c.get('k') == 'frame' and d.get('exc') in ('ErrorInitIndex',):
        spec = c['spec']
        # a hierarchical axis addressed in an order that is not tree-ordered (list key, negative-step slice)
        if (spec['index']['kind'] == 'ih' and c['rk'][0] in ('list', 'sl')) or (spec['columns']['kind'] == 'ih' and c['ck'][0] in ('list', 'sl')):
            return 'F71'
    return None


def search(ctx):
    rng = ctx.rng('search')
    for _ in range(20000):
        spec = gen.rand_frame_spec(rng, 5, 5, index_kinds=('auto', 'int', 'str'), column_kinds=('auto', 'int', 'str'))
        n, m = spec['rows'], len(spec['cols'])
        yield {'k': 'frame', 'spec': spec, 'route': rng.choice(['iloc2', 'loc2', 'series', 'getitem']),
               'rk': gen.rand_key(rng, n), 'ck': gen.rand_key(rng, m), 'n': n * m}
