"""C18 helper: picklable module-level task functions, container builders and the real-code runner.

Runs either imported (reference computations) or as a worker process
(`python -c "...; from sfv.props import c18_tasks; c18_tasks.main()"`): one JSON case per stdin line, one
JSON result per stdout line.  Pool runs happen in the worker so that a dead-locked pool cannot hang the
check (the parent kills the worker's process group after a time-out = infrastructure error).

Every data cell is an integer *code*:  code = (ident * 2 + fail) * 16 + rank.
A task looks at the FIRST cell of its argument: it sleeps UNIT * rank seconds (this is how completion
orders are forced), raises PoolTaskError(ident) when `fail` is set, and otherwise returns a digest of the
idents of ALL cells of its argument (so a result can be traced to the input it came from).
"""
from __future__ import annotations

import json
import os
import sys
import time

import numpy as np

UNIT = float(os.environ.get('SFV_C18_UNIT', '0.004'))


class PoolTaskError(Exception):
    """Raised by an injected failing task; args[0] = ident of the task's leading cell."""


def code(ident, rank=0, fail=0):
    return (ident * 2 + fail) * 16 + rank


def decode(c):
    c = int(c)
    return c // 32, (c // 16) % 2, c % 16   # ident, fail, rank


def cells_of(arg):
    import static_frame as sf
    if isinstance(arg, (sf.Frame, sf.Series)):
        return [int(x) for x in np.asarray(arg.values).reshape(-1).tolist()]
    if isinstance(arg, np.ndarray):
        return [int(x) for x in arg.reshape(-1).tolist()]
    if isinstance(arg, tuple):
        return [int(x) for x in arg]
    return [int(arg)]


def digest(cells):
    h = 1
    for c in cells:
        h = (h * 131 + decode(c)[0] + 1) % 2147483629
    return h


def lab(k):
    from sfv.canon import tok
    return tok(k)


def _trace(ident):
    p = os.environ.get('SFV_C18_TRACE')
    if p:
        fd = os.open(p, os.O_WRONLY | os.O_APPEND | os.O_CREAT)
        try:
            os.write(fd, f'{ident}\n'.encode())
        finally:
            os.close(fd)


def _run(arg, delay):
    cells = cells_of(arg)
    ident, fail, rank = decode(cells[0])
    if delay and rank:
        time.sleep(UNIT * rank)
    if delay:
        _trace(ident)
    if fail:
        raise PoolTaskError(ident)
    return digest(cells)


# values form ------------------------------------------------------------------
def work_v(arg):
    return _run(arg, True)


def work_v0(arg):
    return _run(arg, False)


# items form: the pool hands ONE (k, v) tuple, the sequential apply hands k, v ------------
def work_kv(kv):
    k, v = kv
    return f'{lab(k)}>{_run(v, True)}'


def work_kv0(k, v):
    return f'{lab(k)}>{_run(v, False)}'


# Batch functions ---------------------------------------------------------------
def _shape_result(f, ident):
    m = ident % 3
    if m == 0:
        return f.iloc[:, :1] * 2
    if m == 1:
        return f.sum()
    return digest(cells_of(f))


def bwork(f):
    _run(f, True)
    return _shape_result(f, decode(cells_of(f)[0])[0])


def bwork0(f):
    _run(f, False)
    return _shape_result(f, decode(cells_of(f)[0])[0])


def bwork_items(label, f):
    _run(f, True)
    return f.rename(f'{lab(label)}>{digest(cells_of(f))}')


def bwork_items0(label, f):
    _run(f, False)
    return f.rename(f'{lab(label)}>{digest(cells_of(f))}')


# stores ------------------------------------------------------------------------
from static_frame.core.store_zip import StoreZipPickle  # noqa: E402


class DelayZipPickle(StoreZipPickle):
    """StoreZipPickle whose per-frame work sleeps/fails according to the frame's leading cell."""

    @staticmethod
    def _build_frame(src, name, config, constructor):
        f = constructor(src)
        _run(f, True)
        return f

    @staticmethod
    def _payload_to_bytes(payload):
        _run(payload.frame, True)
        return payload.name, payload.exporter(payload.frame)


def delay_store():
    return DelayZipPickle


# builders ------------------------------------------------------------------------
def build_index(toks, name=None):
    import static_frame as sf
    from sfv.canon import untok
    labels = [untok(t) for t in toks]
    if labels and isinstance(labels[0], tuple):
        return sf.IndexHierarchy.from_labels(labels, name=name)
    return sf.Index(labels, name=name)


def build_container(spec):
    import static_frame as sf
    if spec['kind'] == 'series':
        return sf.Series(np.array(spec['values'], dtype=np.int64), index=build_index(spec['index']), name=spec.get('name'))
    cells = np.array(spec['cells'], dtype=np.int64).reshape(len(spec['index']), len(spec['columns']))
    return sf.Frame(cells, index=build_index(spec['index']), columns=build_index(spec['columns']), name=spec.get('name'))


def snapshot(c):
    """JSON-able strict snapshot of a Series / Frame / scalar."""
    import static_frame as sf
    from sfv.canon import tok, dtype_tok, array_toks
    if isinstance(c, sf.Series):
        return {'t': 'Series', 'index': [tok(x) for x in c.index], 'values': array_toks(c.values),
                'dtype': dtype_tok(c.dtype), 'name': tok(c.name), 'icls': type(c.index).__name__}
    if isinstance(c, sf.Frame):
        return {'t': 'Frame', 'index': [tok(x) for x in c.index], 'columns': [tok(x) for x in c.columns],
                'values': [array_toks(c._blocks._extract_array(column_key=j)) for j in range(c.shape[1])],
                'dtypes': [dtype_tok(d) for d in c.dtypes.values], 'name': tok(c.name),
                'icls': type(c.index).__name__}
    return {'t': 'scalar', 'v': tok(c)}


def iter_node(c, iface, kw):
    kw = dict(kw)
    if kw.get('constructor') == 'tuple':
        kw['constructor'] = tuple
    return getattr(c, iface)(**kw)


def units_of(spec, iface, kw):
    """Sequential enumeration of (label token, cells) per task unit through the *items* iterator."""
    c = build_container(spec)
    node = iter_node(c, iface, kw)
    return [(lab(k), cells_of(v)) for k, v in node._func_items()]


def outcome_err(ex):
    from sfv.canon import err_cat
    d = {'err': err_cat(ex), 'cls': type(ex).__name__, 'msg': str(ex)[:200]}
    if isinstance(ex, PoolTaskError):
        d['ident'] = ex.args[0] if ex.args else None
    return d


def read_trace(path):
    try:
        with open(path) as f:
            out = [int(l) for l in f.read().split()]
        os.unlink(path)
        return out
    except FileNotFoundError:
        return []


# runners -------------------------------------------------------------------------
def run_case(case):
    k = case['k']
    trace = f'/tmp/sfv_c18_trace_{os.getpid()}'
    if os.path.exists(trace):
        os.unlink(trace)
    os.environ['SFV_C18_TRACE'] = trace
    try:
        if k == 'probe':
            res = run_probe(case)
        elif k == 'iter':
            res = run_iter(case)
        elif k == 'batch':
            res = run_batch(case)
        elif k == 'store':
            res = run_store(case)
        else:
            raise ValueError(k)
    finally:
        os.environ.pop('SFV_C18_TRACE', None)
    res['trace'] = read_trace(trace)
    return res


def probe_fn(i):
    time.sleep(UNIT * (3 - i))
    return i * 10


def run_probe(case):
    """The recorded assumption: Executor.map consumes its iterables eagerly (before the first result is
    requested) and yields in submission order."""
    from concurrent.futures import ThreadPoolExecutor, ProcessPoolExecutor
    out = {}
    for nm, cls in (('threads', ThreadPoolExecutor), ('processes', ProcessPoolExecutor)):
        log = []

        def gen():
            for i in range(4):
                log.append(i)
                yield i
        with cls(max_workers=4) as ex:
            it = ex.map(probe_fn, gen(), chunksize=case.get('chunksize', 1))
            consumed_before_first = list(log)
            got = list(it)
        out[nm] = {'consumed_before_first': consumed_before_first, 'got': got}
    return out


def run_iter(case):
    c = build_container(case['spec'])
    iface, kw = case['iface'], case['kw']
    items = iface.endswith('_items')
    res = {}
    # sequential form
    try:
        seq = iter_node(c, iface, kw).apply(work_kv0 if items else work_v0)
        res['seq'] = {'ok': snapshot(seq)}
    except Exception as ex:
        res['seq'] = outcome_err(ex)
    # direct reference through plain iteration (independent of apply/apply_pool)
    res['units'] = units_of(case['spec'], iface, kw)
    t0 = time.time()
    try:
        par = iter_node(c, iface, kw).apply_pool(work_kv if items else work_v, max_workers=case['workers'],
                                                 chunksize=case['chunksize'], use_threads=case['threads'])
        res['par'] = {'ok': snapshot(par)}
    except Exception as ex:
        res['par'] = outcome_err(ex)
    res['wall'] = round(time.time() - t0, 4)
    return res


def batch_frames(case):
    import static_frame as sf
    out = []
    for lbl, cells in zip(case['labels'], case['frames']):
        from sfv.canon import untok
        arr = np.array(cells, dtype=np.int64)
        out.append((untok(lbl), sf.Frame(arr, columns=[f'c{j}' for j in range(arr.shape[1])],
                                          index=[f'r{i}' for i in range(arr.shape[0])], name=untok(lbl))))
    return out


def batch_op(b, op, delay):
    if op == 'apply':
        return b.apply(bwork if delay else bwork0)
    if op == 'apply_items':
        return b.apply_items(bwork_items if delay else bwork_items0)
    if op == 'apply_except':
        return b.apply_except(bwork if delay else bwork0, PoolTaskError)
    if op == 'apply_items_except':
        return b.apply_items_except(bwork_items if delay else bwork_items0, PoolTaskError)
    if op == 'apply_except_other':   # the silenced class does not match: the error must propagate
        return b.apply_except(bwork if delay else bwork0, KeyError)
    if op == 'sum':
        return b.sum()
    if op == 'iloc':
        return b.iloc[:1]
    if op == 'add':
        return b + 1
    if op == 'chain':
        return b.apply(bwork if delay else bwork0).apply(_identity)
    raise ValueError(op)


def _identity(x):
    return x


def drain_batch(b):
    from sfv.canon import tok
    try:
        return {'ok': [[tok(k), snapshot(v)] for k, v in b.items()]}
    except Exception as ex:
        return outcome_err(ex)


def run_batch(case):
    import static_frame as sf
    res = {}
    op = case['op']
    try:
        res['seq'] = drain_batch(batch_op(sf.Batch(iter(batch_frames(case))), op, False))
    except Exception as ex:
        res['seq'] = outcome_err(ex)
    t0 = time.time()
    try:
        if case.get('ctor') == 'from_frames':
            b = sf.Batch.from_frames([f for _, f in batch_frames(case)], max_workers=case['workers'],
                                     chunksize=case['chunksize'], use_threads=case['threads'])
        else:
            b = sf.Batch(iter(batch_frames(case)), max_workers=case['workers'], chunksize=case['chunksize'],
                         use_threads=case['threads'])
        res['par'] = drain_batch(batch_op(b, op, True))
    except Exception as ex:
        res['par'] = outcome_err(ex)
    res['wall'] = round(time.time() - t0, 4)
    return res


def run_store(case):
    import tempfile
    import zipfile
    import static_frame as sf
    from static_frame.core import store_zip
    from sfv.canon import tok
    frames = batch_frames(case)
    cls_name = case['store']
    if cls_name == 'DelayZipPickle':
        cls = delay_store()
        plain = store_zip.StoreZipPickle
    else:
        cls = getattr(store_zip, cls_name)
        plain = cls
    kw = {}
    if cls_name in ('StoreZipTSV', 'StoreZipCSV'):
        kw = dict(index_depth=1, columns_depth=1, include_index=True, include_columns=True)
    cfg_seq = sf.StoreConfig(**kw)
    cfg_par = sf.StoreConfig(read_max_workers=case['rworkers'], read_chunksize=case['rchunk'],
                             write_max_workers=case['wworkers'], write_chunksize=case['wchunk'], **kw)
    per = case.get('per_label')
    if per is not None and kw:
        # a per-label configuration that reads one frame differently (its index column as data): the pool must hand every
        # task the configuration of its own label
        special = dict(kw, index_depth=0)
        lbl = frames[per][0]
        workers = dict(read_max_workers=case['rworkers'], read_chunksize=case['rchunk'],
                       write_max_workers=case['wworkers'], write_chunksize=case['wchunk'])
        cfg_seq = sf.StoreConfigMap({lbl: sf.StoreConfig(**special)}, default=cfg_seq)
        cfg_par = sf.StoreConfigMap({lbl: sf.StoreConfig(**special, **workers)}, default=cfg_par)
    d = tempfile.mkdtemp(prefix='sfv_c18_')
    fp_seq, fp_par = os.path.join(d, 'seq.zip'), os.path.join(d, 'par.zip')
    res = {}
    order = case.get('read_order') or list(range(len(frames)))
    labels = [frames[i][0] for i in order]

    def entries(fp):
        with zipfile.ZipFile(fp) as zf:
            return [n for n in zf.namelist()]

    def read_all(store, cfg, fp):
        out = []
        for lbl, f in zip(labels, store.read_many(labels, config=cfg)):
            snap = snapshot(f)
            out.append([tok(lbl), snap])
        return out
    try:
        # sequential write with the plain class (never fails on flags: plain exporter ignores the codes)
        plain(fp_seq).write(iter(frames), config=cfg_seq)
        res['seq_entries'] = entries(fp_seq)
        res['seq_read'] = {'ok': read_all(plain(fp_seq), cfg_seq, fp_seq)}
    except Exception as ex:
        res['seq_read'] = outcome_err(ex)
    t0 = time.time()
    try:
        cls(fp_par).write(iter(frames), config=cfg_par)
        res['par_entries'] = {'ok': entries(fp_par)}
    except Exception as ex:
        res['par_entries'] = outcome_err(ex)
    try:
        # read the sequentially written file with workers (so that a write failure does not mask the read)
        res['par_read'] = {'ok': read_all(cls(fp_seq), cfg_par, fp_seq)}
    except Exception as ex:
        res['par_read'] = outcome_err(ex)
    if 'ok' in res.get('par_entries', {}):
        try:
            res['par_written_read_seq'] = {'ok': read_all(plain(fp_par), cfg_seq, fp_par)}
        except Exception as ex:
            res['par_written_read_seq'] = outcome_err(ex)
    res['wall'] = round(time.time() - t0, 4)
    import shutil
    shutil.rmtree(d, ignore_errors=True)
    return res


def main():
    for line in sys.stdin:
        line = line.strip()
        if not line:
            continue
        case = json.loads(line)
        try:
            out = run_case(case)
        except Exception as ex:  # harness-level problem: report, the parent decides
            import traceback
            out = {'harness_error': f'{type(ex).__name__}: {ex}', 'tb': traceback.format_exc()[-1500:]}
        sys.stdout.write(json.dumps(out, default=str) + '\n')
        sys.stdout.flush()


if __name__ == '__main__':
    main()
