"""Canonical tokens for cells and labels, error categories, frame snapshots.

Tokens are type-tagged strings so that 1, 1.0, True and '1' are distinct:
  N | nan | nat | b:0 b:1 | i:<int> | f:<repr> | c:<repr> | s:<json str> | y:<json str of latin1>
  d:<iso>[unit] | td:<int>[unit] | D:<iso date> | t:(tok tok ...) | o:<repr>  (anything else)
"""
from __future__ import annotations

import datetime
import json
import math

import numpy as np


def tok(v):
    if v is None:
        return 'N'
    if isinstance(v, np.datetime64):
        if np.isnat(v):
            return 'nat'
        return f'd:{v!s}[{np.datetime_data(v.dtype)[0]}]'
    if isinstance(v, np.timedelta64):
        if np.isnat(v):
            return 'nat'
        return f'td:{v.astype(np.int64)}[{np.datetime_data(v.dtype)[0]}]'
    if isinstance(v, (bool, np.bool_)):
        return 'b:1' if v else 'b:0'
    if isinstance(v, (int, np.integer)):
        return f'i:{int(v)}'
    if isinstance(v, (float, np.floating)):
        fv = float(v)
        if math.isnan(fv):
            return 'nan'
        return f'f:{fv!r}'
    if isinstance(v, (complex, np.complexfloating)):
        cv = complex(v)
        if math.isnan(cv.real) or math.isnan(cv.imag):
            return 'nan'
        return f'c:{cv!r}'
    if isinstance(v, (str, np.str_)):
        return 's:' + json.dumps(str(v))
    if isinstance(v, (bytes, np.bytes_)):
        return 'y:' + json.dumps(bytes(v).decode('latin1'))
    if isinstance(v, datetime.datetime):
        return f'DT:{v.isoformat()}'
    if isinstance(v, datetime.date):
        return f'D:{v.isoformat()}'
    if isinstance(v, tuple):
        return 't:(' + ' '.join(tok(x) for x in v) + ')'
    if isinstance(v, np.ndarray):
        return 'a:(' + ' '.join(tok(x) for x in v.tolist()) + ')'
    if isinstance(v, list):
        return 'l:(' + ' '.join(tok(x) for x in v) + ')'
    return f'o:{type(v).__name__}:{v!r}'


def untok(t):
    """Inverse of tok for the token kinds generators produce."""
    if t == 'N':
        return None
    if t == 'nan':
        return float('nan')
    if t == 'nat':
        return np.datetime64('NaT')
    k, _, r = t.partition(':')
    if k == 'b':
        return r == '1'
    if k == 'i':
        return int(r)
    if k == 'f':
        return float(r)
    if k == 'c':
        return complex(r)
    if k == 's':
        return json.loads(r)
    if k == 'y':
        return json.loads(r).encode('latin1')
    if k == 'd':
        val, _, unit = r.partition('[')
        return np.datetime64(val, unit.rstrip(']'))
    if k == 'td':
        val, _, unit = r.partition('[')
        return np.timedelta64(int(val), unit.rstrip(']'))
    if k == 'D':
        return datetime.date.fromisoformat(r)
    if k == 't':
        return tuple(untok(x) for x in split_toks(r[1:-1]))
    raise ValueError(f'cannot untok {t!r}')


def split_toks(s):
    """Split a space separated token string, respecting quotes and parentheses."""
    out, cur, depth, inq, esc = [], '', 0, False, False
    for ch in s:
        if inq:
            cur += ch
            if esc:
                esc = False
            elif ch == '\\':
                esc = True
            elif ch == '"':
                inq = False
        elif ch == '"':
            cur += ch
            inq = True
        elif ch == '(':
            depth += 1
            cur += ch
        elif ch == ')':
            depth -= 1
            cur += ch
        elif ch == ' ' and depth == 0:
            if cur:
                out.append(cur)
            cur = ''
        else:
            cur += ch
    if cur:
        out.append(cur)
    return out


def hash_class(v):
    """Token of the ==/hash class of a label (1 == 1.0 == True)."""
    if isinstance(v, (bool, np.bool_, int, np.integer, float, np.floating)) and not (isinstance(v, (float, np.floating)) and math.isnan(float(v))):
        fv = float(v)
        if fv == int(fv):
            return f'n:{int(fv)}'
        return f'n:{fv!r}'
    if isinstance(v, tuple):
        return 't:(' + ' '.join(hash_class(x) for x in v) + ')'
    return tok(v)


def dtype_tok(dt):
    dt = np.dtype(dt)
    if dt.kind in 'mM':
        return f'{dt.kind}[{np.datetime_data(dt)[0]}]'
    if dt.kind in 'US':
        return f'{dt.kind}{dt.itemsize // (4 if dt.kind == "U" else 1)}'
    return f'{dt.kind}{dt.itemsize}'


def dtype_kind(dt):
    return np.dtype(dt).kind


def err_cat(ex):
    """Map an exception to the model's Err enum name."""
    import static_frame as sf
    from static_frame.core import exception as sfe
    name = type(ex).__name__
    if isinstance(ex, sfe.ErrorInitIndexNonUnique):
        return 'nonUnique'
    if isinstance(ex, sfe.ErrorInitIndex):
        return 'indexInit'
    if isinstance(ex, getattr(sfe, 'StoreFileMutation', ())):
        return 'storeMutation'
    if isinstance(ex, sfe.ErrorInit):
        return 'init'
    if isinstance(ex, (KeyError, IndexError, getattr(sfe, 'LocInvalid', KeyError), getattr(sfe, 'LocEmpty', KeyError))):
        return 'lookup'
    if isinstance(ex, (ValueError, TypeError)):
        return 'value'
    if isinstance(ex, RuntimeError):
        return 'shape'
    return 'other'


def frame_snapshot(f):
    """Deep, layout independent snapshot of a Frame: labels, per column tokens and dtype, names."""
    cols = []
    for j in range(f.shape[1]):
        arr = f._blocks._extract_array(column_key=j)
        cols.append((dtype_tok(arr.dtype), tuple(tok(x) for x in arr.tolist()) if arr.dtype.kind not in 'mM' else tuple(tok(x) for x in arr)))
    return {
        'index': tuple(tok(x) for x in f.index),
        'columns': tuple(tok(x) for x in f.columns),
        'cols': tuple(cols),
        'name': tok(f.name),
        'index_name': tok(f.index.name),
        'columns_name': tok(f.columns.name),
        'shape': tuple(f.shape),
    }


def array_toks(arr):
    arr = np.asarray(arr)
    if arr.dtype.kind in 'mM':
        return [tok(x) for x in arr.reshape(-1)] if arr.ndim == 1 else [[tok(x) for x in row] for row in arr]
    return [tok(x) for x in arr.tolist()] if arr.ndim == 1 else [[tok(x) for x in row] for row in arr.tolist()]


def series_snapshot(s):
    return {
        'index': tuple(tok(x) for x in s.index),
        'values': tuple(array_toks(s.values)),
        'dtype': dtype_tok(s.dtype),
        'name': tok(s.name),
        'index_name': tok(s.index.name),
    }


def index_snapshot(ix):
    return {'labels': tuple(tok(x) for x in ix), 'name': tok(ix.name), 'cls': type(ix).__name__}
