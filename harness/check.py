#!/venv/bin/python
"""Entry point of every registered check.

  check.py <Cxx> --tier quick|thorough [--replay file] [--seed n]

Order of a run (DESIGN 1.3): regenerate Gen/ from /repo's working tree -> lake build the property's
modules (the kernel re-checks every theorem incl. bridge lemmas) -> audit (axioms, forbidden
constructs) -> correspondence (model vs real code) and property oracle on the real code ->
classification against known_findings.json -> evidence -> exit code.

Exit 0: all obligations discharged, audit clean, no unlisted failure.
Exit 1: `VIOLATION property=<id> replay=<path>[ no-failing-input-found]`.
Exit 2: infrastructure error (time-out, driver crash) - never reported as a violation.
"""
from __future__ import annotations

import argparse
import hashlib
import importlib
import json
import os
import random
import sys
import time
import traceback

HERE = os.path.dirname(os.path.abspath(__file__))
VERIF = os.path.dirname(HERE)
sys.path.insert(0, HERE)
REPO = os.environ.get('SFV_REPO', '/repo')  # the tree under test (seeded-mutation runs point this at a scratch copy)
sys.path.insert(0, REPO)  # import static_frame from the working tree

from sfv import lean  # noqa: E402
from sfv import pins  # noqa: E402

TRUSTED_COMMON = [
    'Lean 4.33.0 kernel; axioms allowed: propext, Classical.choice, Quot.sound (audited per theorem with #print axioms on every run)',
    'the theorem statements in lean/SFModel/Props (my reading of the property)',
    'the correspondence harness (differential testing of the executable model against the real code: agreement on the explored inputs only)',
    'the Lean interpreter executing the model in the driver',
]


class Failure:
    def __init__(self, kind, what, case, finding=None, detail=None):
        self.kind = kind          # 'oracle' (real code breaks the property) | 'corr' (model != code) | 'obligation'
        self.what = what
        self.case = case
        self.finding = finding    # id in known_findings.json or None
        self.detail = detail

    def to_json(self):
        return {'kind': self.kind, 'what': self.what, 'case': self.case, 'finding': self.finding, 'detail': self.detail}


class Ctx:
    def __init__(self, prop, tier, seed):
        self.prop, self.tier, self.seed = prop, tier, seed
        self.t0 = time.time()
        self.counters = {}
        self.samples = []
        self.distinct = set()
        self.evaluations = 0
        self.traces = 0
        self.budget_s = None

    def rng(self, stream):
        return random.Random(f'{self.seed}:{self.prop}:{stream}')

    def count(self, key, n=1):
        self.counters[key] = self.counters.get(key, 0) + n

    def elapsed(self):
        return time.time() - self.t0

    def out_of_time(self):
        return self.budget_s is not None and self.elapsed() > self.budget_s


def load_findings():
    """known_findings.json (committed, never written at run time) + per-property fragments findings/*.json"""
    out = {'findings': [], 'fixed': []}
    paths = [os.path.join(VERIF, 'known_findings.json')]
    fd = os.path.join(VERIF, 'findings')
    if os.path.isdir(fd):
        paths += [os.path.join(fd, f) for f in sorted(os.listdir(fd)) if f.endswith('.json')]
    for p in paths:
        if os.path.exists(p):
            d = json.load(open(p))
            out['findings'] += d.get('findings', [])
            out['fixed'] += d.get('fixed', [])
    return out


def write_replay(prop, payload):
    os.makedirs(os.path.join(VERIF, 'replays'), exist_ok=True)
    h = hashlib.sha1(json.dumps(payload, sort_keys=True, default=str).encode()).hexdigest()[:12]
    path = os.path.join(VERIF, 'replays', f'{prop}-{h}.json')
    with open(path, 'w') as f:
        json.dump(payload, f, indent=1, sort_keys=True, default=str)
    return os.path.relpath(path, VERIF)


def run_cases(ctx, mod, cases, batch=4000):
    """Run cases through model (driver) and real code; returns list of Failure."""
    failures = []
    buf = []

    def flush():
        nonlocal buf
        if not buf:
            return
        lines, spans = [], []
        for c in buf:
            ls = mod.model_lines(c) if hasattr(mod, 'model_lines') else []
            spans.append((len(lines), len(lines) + len(ls)))
            lines.extend(ls)
        outs = lean.run_driver(lines) if lines else []
        for c, (a, b) in zip(buf, spans):
            ctx.evaluations += 1
            try:
                fs = mod.evaluate(ctx, c, outs[a:b]) or []
            except Exception as ex:  # harness bug or unexpected exception class: report, never hide
                fs = [Failure('corr', f'harness exception {type(ex).__name__}: {ex}', c, detail=traceback.format_exc()[-1500:])]
            for f in fs:
                if f.finding is None and hasattr(mod, 'classify'):
                    f.finding = mod.classify(f)
            failures.extend(fs)
            key = json.dumps(c, sort_keys=True, default=str)
            if mod.nontrivial(c):
                ctx.distinct.add(hashlib.sha1(key.encode()).digest()[:8])
            if len(ctx.samples) < 5 and mod.nontrivial(c):
                ctx.samples.append(c)
        if lines:
            ctx.traces += len(buf)
        buf = []

    for c in cases:
        buf.append(c)
        if len(buf) >= batch:
            flush()
        if ctx.out_of_time():
            ctx.count('stopped_on_budget')
            break
    flush()
    return failures


def main():
    ap = argparse.ArgumentParser()
    ap.add_argument('prop')
    ap.add_argument('--tier', default=os.environ.get('VERIF_TIER', 'quick'), choices=['quick', 'thorough'])
    ap.add_argument('--seed', type=int, default=int(os.environ.get('VERIF_SEED', '0') or 0))
    ap.add_argument('--replay')
    ap.add_argument('--no-build', action='store_true', help='skip lake build/audit (development only; evidence marks it)')
    a = ap.parse_args()
    prop = a.prop.upper()
    mod = importlib.import_module(f'sfv.props.{prop.lower()}')
    ctx = Ctx(prop, a.tier, a.seed)
    ctx.budget_s = getattr(mod, 'BUDGET', {'quick': 240, 'thorough': 2400})[a.tier]
    findings = load_findings()
    known = {f['id']: f for f in findings.get('findings', []) if f['property'] == prop}

    if a.replay:
        rp = json.load(open(a.replay))
        cases = [f['case'] for f in rp.get('failures', []) if f.get('case') is not None]
        fails = run_cases(ctx, mod, cases)
        fails = [f for f in fails if f.finding not in known]
        for f in fails:
            print('REPLAY-FAILS', f.kind, f.what)
        if not cases:
            print('replay names no concrete input:', rp.get('broken'))
        print(f'replayed {len(cases)} case(s): {len(fails)} failing')
        return 1 if fails or not cases else 0

    # ---- 1. proof obligations ------------------------------------------------
    obligations = list(mod.THEOREMS)
    broken = []
    axioms = {}
    leanchecker = None
    targets = list(mod.TARGETS)
    if not a.no_build:
        with lean.Locked():
            subprocess_run_gen_all()
            terrs = lean.regen(REPO, prop)
            broken += [f'translation: {e}' for e in terrs]
            ok, log = lean.build(targets + ['SFModel.Drv.All'])
            if not ok:
                broken += [f'build: {b}' for b in (lean.broken_decls(log) or [log[-400:]])]
            hits, mods = lean.grep_forbidden(targets)
            broken += [f'forbidden construct: {h}' for h in hits]
            if ok and a.tier == 'thorough':
                # thorough tier: the compiled proofs of this property's modules (everything under SFModel they import,
                # drivers excluded) are replayed by the independent checker
                rmods = [m for m in mods if '.Drv.' not in m]
                rok, rlog = lean.recheck(rmods)
                leanchecker = {'modules': len(rmods), 'ok': rok}
                if not rok:
                    broken.append(f'leanchecker: {rlog[-300:]}')
            if ok:
                axioms = lean.audit(obligations, targets)
                for t, ax in axioms.items():
                    if ax is None:
                        broken.append(f'theorem missing: {t}')
                    elif not set(ax) <= lean.ALLOWED_AXIOMS:
                        broken.append(f'axioms of {t}: {ax}')
    discharged = 0 if (broken and not axioms) else sum(1 for t in obligations if axioms.get(t) is not None and set(axioms[t]) <= lean.ALLOWED_AXIOMS)
    if a.no_build:
        discharged = 0

    # ---- 2. correspondence + oracle ---------------------------------------------
    failures = []
    driver_ok = a.no_build or not any(b.startswith('build') for b in broken)
    if not driver_ok:
        # the model cannot run: fall back to the oracle alone (model_lines disabled)
        ctx.count('driver_unavailable')
        saved = getattr(mod, 'model_lines', None)
        mod.model_lines = lambda c: []
        mod.MODEL_OFF = True
    try:
        corpus = os.path.join(VERIF, 'corpus', f'{prop}.jsonl')
        if os.path.exists(corpus):
            cs = [json.loads(l) for l in open(corpus) if l.strip()]
            failures += run_cases(ctx, mod, cs)
            ctx.count('corpus_cases', len(cs))
        failures += run_cases(ctx, mod, mod.cases(ctx))
        if hasattr(mod, 'extra'):
            failures += mod.extra(ctx) or []
    except lean_timeout_errors() as ex:
        print(f'INFRASTRUCTURE-ERROR {type(ex).__name__}: {ex}')
        return 2

    # ---- 2b. change-directed escalation (sfv/pins.py): the source moved since the models were last validated ------
    changed = pins.relevant_changed(REPO, prop)
    escalation = {'changed_files': changed, 'passes': 0, 'evaluations': 0}
    esc_budget = pins.ESCALATION_BUDGET_S.get(a.tier, 0)
    if changed and esc_budget and not [f for f in failures if f.finding not in known]:
        t_end = time.time() + esc_budget
        per_pass = ctx.budget_s
        try:
            for s in pins.ESCALATION_SEEDS:
                if time.time() >= t_end:
                    break
                ctx2 = Ctx(prop, a.tier, a.seed * 1000 + s)
                ctx2.budget_s = min(per_pass, t_end - time.time())
                fs = run_cases(ctx2, mod, mod.cases(ctx2))
                if hasattr(mod, 'extra') and not ctx2.out_of_time():
                    fs += mod.extra(ctx2) or []
                escalation['passes'] += 1
                escalation['evaluations'] += ctx2.evaluations
                ctx.evaluations += ctx2.evaluations
                ctx.distinct |= ctx2.distinct
                ctx.traces += ctx2.traces
                failures += fs
                if [f for f in fs if f.finding not in known]:
                    break
        except lean_timeout_errors() as ex:
            print(f'INFRASTRUCTURE-ERROR {type(ex).__name__}: {ex}')
            return 2
        print(f'NOTE: {len(changed)} source file(s) differ from the pinned state ({", ".join(changed[:4])}): '
              f'{escalation["passes"]} further pass(es) under fresh seeds, {escalation["evaluations"]} more evaluations')

    unlisted = [f for f in failures if f.finding not in known]
    listed = [f for f in failures if f.finding in known]

    # ---- 3. broken obligation / correspondence -> failing-input search -------------
    searched = 0
    oracle_fail = [f for f in unlisted if f.kind == 'oracle']
    need_search = (broken or [f for f in unlisted if f.kind != 'oracle']) and not oracle_fail
    if need_search and hasattr(mod, 'search'):
        ctx.budget_s = ctx.elapsed() + getattr(mod, 'SEARCH_BUDGET', {'quick': 120, 'thorough': 600})[a.tier]
        found = run_cases(ctx, mod, mod.search(ctx))
        searched = 1
        for f in found:
            if f.kind == 'oracle' and f.finding not in known:
                oracle_fail.append(f)
                unlisted.append(f)

    # ---- 4. report ---------------------------------------------------------------
    seen_known = {}
    absorbed = {}
    for f in listed:
        seen_known.setdefault(f.finding, f)
        absorbed[f.finding] = absorbed.get(f.finding, 0) + 1
    for fid, f in sorted(seen_known.items()):
        print(f'KNOWN-FINDING: property={prop} {fid}: {known[fid]["what"]}')
    stale = [fid for fid in known if fid not in seen_known and known[fid].get('expect_each_run')]
    for fid in stale:
        print(f'NOTE: known finding {fid} was not reproduced by this run (entry may be stale)')

    rc = 0
    if oracle_fail:
        path = write_replay(prop, {'property': prop, 'seed': a.seed, 'tier': a.tier, 'broken': broken,
                                   'failures': [f.to_json() for f in oracle_fail[:5]]})
        for f in oracle_fail[:3]:
            print(f'FAILING-INPUT {f.what}')
        print(f'VIOLATION property={prop} replay={path}')
        rc = 1
    elif broken or unlisted:
        path = write_replay(prop, {'property': prop, 'seed': a.seed, 'tier': a.tier,
                                   'broken': broken + [f'correspondence: {f.what}' for f in unlisted[:10]],
                                   'failures': [f.to_json() for f in unlisted[:5]], 'searched': searched})
        for b in (broken + [f'correspondence: {f.what}' for f in unlisted])[:6]:
            print(f'BROKEN {b}')
        print(f'VIOLATION property={prop} replay={path} no-failing-input-found')
        rc = 1

    # ---- 5. evidence -------------------------------------------------------------
    ev = {
        'property_id': prop, 'tier': a.tier, 'seed': a.seed, 'level': 'proof',
        'coverage': {
            'obligations': len(obligations), 'discharged': discharged,
            'checker_cmd': 'cd lean && lake build ' + ' '.join(targets) + '  # then #print axioms per theorem (harness/sfv/lean.py audit)',
            'trusted_base': TRUSTED_COMMON + list(getattr(mod, 'TRUSTED', [])),
            'theorems': {t: axioms.get(t) for t in obligations},
            'partial_theorems': list(getattr(mod, 'PARTIAL', [])),
            'correspondence_only': list(getattr(mod, 'CORR_ONLY', [])),
            'broken_obligations': broken,
            'evaluations': ctx.evaluations, 'distinct_nontrivial': len(ctx.distinct),
            'rule': getattr(mod, 'RULE', ''),
            'samples': ctx.samples[:5] or [{'note': 'no case generated'}],
            'traces_validated_against_impl': ctx.traces,
            'distribution': dict(sorted(ctx.counters.items())),
            'known_findings_seen': sorted(seen_known), 'failing_input_search_ran': bool(searched),
            # how many failing cases of this run each listed finding accounts for: the larger the number, the wider the
            # region in which a new violation of the same kind would be read as the old one
            'known_findings_absorbed': dict(sorted(absorbed.items())),
            'built': not a.no_build,
            'change_directed_escalation': escalation,
            'leanchecker': leanchecker if leanchecker is not None else 'thorough tier only',
        },
        'assumptions': list(getattr(mod, 'ASSUMPTIONS', [])),
        'wall_s': round(ctx.elapsed(), 2),
        'violations': len(oracle_fail) if oracle_fail else (1 if rc else 0),
    }
    # a development run without the build / audit stage never replaces the evidence of a full run
    # ... and neither does a run against a scratch copy of the repository (seeded changes)
    ev_dir = os.path.join(VERIF, 'evidence')
    if a.no_build:
        ev_dir = os.path.join(ev_dir, 'nobuild')
    elif os.path.realpath(REPO) != '/repo':
        ev_dir = os.path.join(ev_dir, 'scratch')
    os.makedirs(ev_dir, exist_ok=True)
    with open(os.path.join(ev_dir, f'{prop}.json'), 'w') as f:
        json.dump(ev, f, indent=1, sort_keys=True, default=str)
    print(f'{prop} {a.tier}: obligations {discharged}/{len(obligations)} evaluations={ctx.evaluations} '
          f'distinct_nontrivial={len(ctx.distinct)} known={sorted(seen_known)} wall={ev["wall_s"]}s rc={rc}')
    return rc


def subprocess_run_gen_all():
    import subprocess
    subprocess.run([sys.executable, os.path.join(VERIF, 'tools', 'gen_drv_all.py')], check=True)


def lean_timeout_errors():
    import subprocess
    return (subprocess.TimeoutExpired, RuntimeError)


if __name__ == '__main__':
    sys.exit(main())
