#!/venv/bin/python
"""py2lean_locmap - translate the label -> position translation of slices from static-frame's *current*
source (static_frame/core/index.py, class LocMap; constants from static_frame/core/util.py) into Lean 4
(lean/SFModel/Gen/LocMap.lean).  lean/SFModel/BridgeLocMap.lean proves the generated definitions equal the
hand-mirrored ones of lean/SFModel/Index.lean (`Index.mapSliceArgs`, `Index.locMap` - the definitions the
C02 / C04 / C05 theorems are about), so a semantic edit of the translated region breaks a proof obligation,
and syntax outside the subset below is a TRANSLATION-ERROR (never a guess, never skipped silently).

What is translated
  (a) `LocMap.map_slice_args` (a generator): the loop `for field in SLICE_ATTRS` is unrolled - one Lean
      function per field (`map_slice_args_start/_stop/_step`, the loop body specialised to the constant
      `field`, tests on `field` folded with the values of SLICE_*_ATTR read from util.py) and
      `map_slice_args`, which runs them in the order of SLICE_ATTRS and returns the three yielded values.
        label_to_pos(attr)                  -> the parameter `lookup : L → Option Int` (None = absent)
        raise LocInvalid(...) / LocEmpty()  -> `.error Exc.LocInvalid` / `.error Exc.LocEmpty`
        elif isinstance(attr, np.datetime64): <arm>
                                            -> `if isDt a then dtArm Field.<field> a else ...`: the arm is a
                                               recognised-and-skipped region, abstracted as the parameters
                                               `isDt : L → Bool`, `dtArm : Field → L → Except Exc (Option Int)`
                                               (checked: it is an `elif` of `if attr is None`, contains exactly
                                               one `yield`, as its last statement, no return / break / continue)
  (b) the slice branch of `LocMap.loc_to_iloc` (`if isinstance(key, slice): ...`, every path of which must
      return) with the statements before it -> `loc_to_iloc_slice`; `len(positions)` is the parameter
      `positions_len : Nat`; `try: a, b, c = cls.map_slice_args(...) except LocEmpty: ...` is a `match` on the
      generated `map_slice_args`.

Subset (trusted semantics; cross-checked against the real `LocMap.loc_to_iloc` on a grid by
harness/sfv/props/locmap_grid.py on every run):
  * values: None, Python ints (unbounded `Int`), labels (`L`; only ever passed to `label_to_pos` or tested with
    `is None` / `isinstance(_, np.datetime64)`), the slice `key` (`key.start/.stop` : `Option L`, `key.step` :
    `Option Int` - a step that is not None has an integer VALUE, of whatever integer class: Python int, np.integer,
    bool; a test of its class such as `key.step.__class__ is int` is outside the subset and rejected;
    `isinstance(step, np.datetime64)` is False), strings that are compile-time constants (`field`,
    SLICE_*_ATTR), Booleans that are compile-time constants on each path (`offset_apply`), `slice(...)` values
  * an expression that may be None is never given a default: using it (arithmetic, comparison, `is None`,
    `label_to_pos(_)`) forces a `match`, and each arm is translated with that knowledge
    (path-sensitive typing: `offset_apply = not offset is None` is a constant in each arm of the match on `offset`)
  * `+`, `-` on ints (on None: `.error Exc.TypeError`); `<  <=  >  >=  ==  !=` on ints (ordering with None:
    TypeError); `==` / `!=` of two constant strings (folded); `key == <slice constant>` (field-wise, read from the
    constant's definition in util.py); `and` / `or` / `not` short-circuit
  * statements: `x = e`, `x += e`, `x -= e` (locals only: never a parameter), `if / elif / else`, `raise
    LocInvalid(...) | LocEmpty(...)`, `yield e` (exactly once on every path of an iteration), `return slice(...)
    | <slice constant>`, the `try` shape above
  * a local read in a loop iteration must have been assigned in the same iteration (no state is carried from
    one iteration to the next), the statements before the loop are re-evaluated per iteration (they are pure)
  * `label_to_pos.get` (loc_to_iloc) is `label_to_pos` (map_slice_args): `dict.get(k)` is None for an absent key

usage: py2lean_locmap.py [--repo /repo] [--out lean/SFModel/Gen] [--check]
"""
from __future__ import annotations

import argparse
import ast
import hashlib
import os
import sys
import textwrap

INT, NONE, OPTINT, LAB, OPTLAB = 'Int', 'None', 'OptInt', 'Label', 'OptLabel'
BOOL, STR = 'Bool', 'Str'                     # compile-time constants only
LOOKUP, DICT, KEY, ARR, POSITIONS, SLICE, CLS, CLASSOF = 'Lookup', 'Dict', 'Key', 'Array', 'Positions', 'Slice', 'Cls', 'ClassOf'
LIST, BOOLV, RESULT = 'LabelList', 'BoolVar', 'Result'   # a Python list of labels; a Boolean parameter; an `Except Exc _` term
EXCEPTIONS = ('LocInvalid', 'LocEmpty')       # raise / except may name these (plus TypeError: None arithmetic, KeyError: d[k])
FIELDS = ('start', 'stop', 'step')            # attributes of a slice
INDEX_PY = 'static_frame/core/index.py'
UTIL_PY = 'static_frame/core/util.py'

DT_SIG = ('{L : Type} (lookup : L → Option Int) (isDt : L → Bool) '
          '(dtArm : Field → L → Except Exc (Option Int))')
KEY_SIG = '(key_start key_stop : Option L) (key_step : Option Int)'
KEY_ARGS = 'key_start key_stop key_step'
COMMON_ARGS = 'lookup isDt dtArm'


class TranslationError(Exception):
    pass


class Val:
    __slots__ = ('term', 'ty', 'const', 'fields')

    def __init__(self, term, ty, const=None, fields=None):
        self.term, self.ty, self.const, self.fields = term, ty, const, fields


V_NONE = Val('none', NONE)


def ind(s, n=2):
    return textwrap.indent(s, ' ' * n)


def is_atom(term):
    return term.replace('_', 'a').isalnum()


class Env:
    def __init__(self, vars=None, known=None, counter=None, yielded=None):
        self.vars = dict(vars or {})        # python name -> Val
        self.known = dict(known or {})      # lean term of Option type -> Val it is known to be on this path
        self.counter = counter if counter is not None else [0]
        self.yielded = yielded

    def copy(self):
        return Env(self.vars, self.known, self.counter, self.yielded)

    def fresh(self, base):
        self.counter[0] += 1
        return f'{base}_{self.counter[0]}'


class Tr:
    """translator of one region"""

    def __init__(self, consts, params, field=None):
        self.consts = consts          # module constants: name -> Val
        self.params = params          # names that are parameters (never assigned)
        self.field = field            # the constant value of `field` in an unrolled iteration
        self.on_end = None
        self.on_return = None
        self.callee = None            # (python name, number of yields, parameter names) of map_slice_args
        self.skipped = []             # digests of recognised-and-skipped regions

    # ------------------------------------------------------------------ expressions
    def tx(self, e, env, k):
        if isinstance(e, ast.Constant):
            v = e.value
            if v is None:
                return k(V_NONE, env)
            if isinstance(v, bool):
                return k(Val(None, BOOL, const=v), env)
            if isinstance(v, int):
                return k(Val(f'({v} : Int)', INT), env)
            if isinstance(v, str):
                return k(Val(None, STR, const=v), env)
            raise TranslationError(f'constant {v!r}')
        if isinstance(e, ast.Name):
            if e.id in env.vars:
                return k(env.vars[e.id], env)
            if e.id in self.consts:
                return k(self.consts[e.id], env)
            raise TranslationError(f'name {e.id}: not assigned on this path of this iteration, or a global outside the subset')
        if isinstance(e, ast.Attribute):
            return self.tx(e.value, env, lambda v, e1: self.attr(e, v, e1, k))
        if isinstance(e, ast.UnaryOp) and isinstance(e.op, ast.USub):
            def neg(v, e1):
                if v.ty == NONE:
                    return '.error Exc.TypeError /- arithmetic on None -/'
                if v.ty != INT:
                    raise TranslationError(f'negation of {v.ty}: {ast.unparse(e)}')
                return k(Val(f'(-{v.term})', INT), e1)
            return self.tx(e.operand, env, lambda v, e1: self.force(v, e1, neg))
        if isinstance(e, ast.BinOp):
            return self.tx(e.left, env, lambda a, e1: self.force(a, e1, lambda a2, e2: self.tx(
                e.right, e2, lambda b, e3: self.force(b, e3, lambda b2, e4: self.binop(e, a2, b2, e4, k)))))
        if isinstance(e, ast.Call) and isinstance(e.func, ast.Name) and e.func.id == 'isinstance' and 'isinstance' not in env.vars:
            return self.cond(e, env, lambda e1: k(Val(None, BOOL, const=True), e1), lambda e1: k(Val(None, BOOL, const=False), e1))
        if isinstance(e, ast.Call):
            return self.call(e, env, k)
        if isinstance(e, ast.Subscript) and isinstance(e.ctx, ast.Load):
            # label_to_pos[<label>]: KeyError when the label is absent
            def sub(dv, e1):
                def idx(a, e2):
                    if dv.ty != DICT or a.ty != LAB:
                        raise TranslationError(f'subscript outside subset: {ast.unparse(e)}')

                    def found(p, e3):
                        if p.ty == NONE:
                            return '.error Exc.KeyError'
                        return k(p, e3)
                    return self.force(Val(f'(lookup {a.term})', OPTINT), e2, found)
                return self.tx(e.slice, e1, lambda a, e2: self.force(a, e2, idx))
            return self.tx(e.value, env, sub)
        if isinstance(e, ast.ListComp):
            return self.listcomp(e, env, k)
        if isinstance(e, (ast.Compare, ast.BoolOp)) or (isinstance(e, ast.UnaryOp) and isinstance(e.op, ast.Not)):
            return self.cond(e, env, lambda e1: k(Val(None, BOOL, const=True), e1), lambda e1: k(Val(None, BOOL, const=False), e1))
        raise TranslationError(f'expression outside subset: {ast.unparse(e)}')

    def listcomp(self, e, env, k):
        """[<int expression in x> for x in <list of labels> if <x in label_to_pos> ...]  ->  filter, then mapM in Except
        (the elements are evaluated in order, the first exception wins)"""
        if len(e.generators) != 1:
            raise TranslationError(f'comprehension outside subset: {ast.unparse(e)}')
        g = e.generators[0]
        if g.is_async or not isinstance(g.target, ast.Name):
            raise TranslationError(f'comprehension outside subset: {ast.unparse(e)}')
        x = g.target.id
        if x in env.vars or x in self.consts or x in self.params or not x.isidentifier() or x in ('fun', 'match', 'with', 'if', 'then', 'else', 'lookup'):
            raise TranslationError(f'comprehension variable {x}')

        def with_iter(lv, e1):
            if lv.ty != LIST:
                raise TranslationError(f'comprehension over {lv.ty}: {ast.unparse(e)}')
            e2 = Env(e1.vars, {}, e1.counter)        # inside the lambda nothing is known about `lookup x`
            for t, v in e1.known.items():
                if t == 'offset':
                    e2.known[t] = v
            e2.vars[x] = Val(x, LAB)
            src = lv.term
            for c in g.ifs:
                src = f'({src}.filter (fun {x} => {self.bool_term(c, e2)}))'

            def elt(v, e3):
                if v.ty != INT:
                    raise TranslationError(f'comprehension element of {v.ty}: {ast.unparse(e)}')
                return f'.ok {v.term}'
            body = self.tx(e.elt, e2, lambda v, e3: self.force(v, e3, elt))
            return k(Val(f'(List.mapM (fun {x} =>\n{ind(body, 4)}) {src})', RESULT), e1)
        return self.tx(g.iter, env, with_iter)

    def bool_term(self, c, env):
        """the filter of a comprehension as a Lean Bool: `x in label_to_pos` / `x not in label_to_pos`"""
        if isinstance(c, ast.Compare) and len(c.ops) == 1 and isinstance(c.ops[0], (ast.In, ast.NotIn)) \
                and isinstance(c.left, ast.Name) and isinstance(c.comparators[0], ast.Name):
            a, d = env.vars.get(c.left.id), env.vars.get(c.comparators[0].id)
            if a is not None and d is not None and a.ty == LAB and d.ty == DICT:
                return f'(lookup {a.term}).' + ('isSome' if isinstance(c.ops[0], ast.In) else 'isNone')
        raise TranslationError(f'comprehension filter outside subset: {ast.unparse(c)}')

    def force(self, v, env, k):
        """case-split a value that may be None (once per path: the outcome is remembered in env.known)"""
        if v.ty not in (OPTINT, OPTLAB):
            return k(v, env)
        if v.term in env.known:
            return k(env.known[v.term], env)
        inner = INT if v.ty == OPTINT else LAB
        x = env.fresh('v')
        en, es = env.copy(), env.copy()
        en.known[v.term] = V_NONE
        es.known[v.term] = Val(x, inner)
        return (f'match {v.term} with\n| none =>\n{ind(k(V_NONE, en))}\n'
                f'| some {x} =>\n{ind(k(es.known[v.term], es))}')

    def attr(self, e, v, env, k):
        if v.ty == KEY and e.attr in FIELDS:
            return k(self.key_field(e.attr), env)
        if v.ty == DICT and e.attr == 'get':
            return k(Val('lookup', LOOKUP), env)       # trusted: dict.get(k) is None for an absent key
        if e.attr == '__class__' and v.ty in (LIST, LAB):
            return k(Val(None, CLASSOF, fields=[v]), env)
        raise TranslationError(f'attribute outside subset: {ast.unparse(e)}')

    @staticmethod
    def key_field(name):
        if name not in FIELDS:
            raise TranslationError(f'a slice has no attribute {name!r}')
        return Val(f'key_{name}', OPTINT if name == 'step' else OPTLAB)

    def binop(self, e, a, b, env, k):
        if not isinstance(e.op, (ast.Add, ast.Sub)):
            raise TranslationError(f'operator outside subset: {ast.unparse(e)}')
        if {a.ty, b.ty} <= {INT, NONE} and NONE in (a.ty, b.ty):
            return '.error Exc.TypeError /- arithmetic on None -/'
        if a.ty != INT or b.ty != INT:
            raise TranslationError(f'arithmetic on {a.ty}, {b.ty}: {ast.unparse(e)}')
        sym = '+' if isinstance(e.op, ast.Add) else '-'
        return k(Val(f'({a.term} {sym} {b.term})', INT), env)

    def call(self, e, env, k):
        if e.keywords or any(isinstance(a, ast.Starred) for a in e.args):
            raise TranslationError(f'keyword / starred arguments: {ast.unparse(e)}')
        if isinstance(e.func, ast.Name) and e.func.id not in env.vars:
            fn = e.func.id
            if fn == 'getattr' and len(e.args) == 2:
                def ga(o, e1):
                    def gb(f, e2):
                        if o.ty != KEY or f.ty != STR:
                            raise TranslationError(f'getattr outside subset: {ast.unparse(e)}')
                        return k(self.key_field(f.const), e2)
                    return self.tx(e.args[1], e1, gb)
                return self.tx(e.args[0], env, ga)
            if fn == 'len' and len(e.args) == 1:
                def ln(v, e1):
                    if v.ty != POSITIONS:
                        raise TranslationError(f'len outside subset: {ast.unparse(e)}')
                    return k(Val('((positions_len : Nat) : Int)', INT), e1)
                return self.tx(e.args[0], env, ln)
            if fn == 'slice' and 1 <= len(e.args) <= 3:
                def many(i, acc, env_i):
                    if i == len(e.args):
                        for v in acc:
                            if v.ty not in (INT, NONE, OPTINT):
                                raise TranslationError(f'slice() of {v.ty}: {ast.unparse(e)}')
                        if len(acc) == 1:
                            acc = [V_NONE, acc[0], V_NONE]
                        elif len(acc) == 2:
                            acc = acc + [V_NONE]
                        return k(Val(None, SLICE, fields=acc), env_i)
                    return self.tx(e.args[i], env_i, lambda v, e2: many(i + 1, acc + [v], e2))
                return many(0, [], env)
            raise TranslationError(f'call outside subset: {ast.unparse(e)}')
        if isinstance(e.func, ast.Name) and env.vars[e.func.id].ty == LOOKUP and len(e.args) == 1:
            def lk(a, e1):
                if a.ty != LAB:
                    raise TranslationError(f'label_to_pos of {a.ty}: {ast.unparse(e)}')
                return k(Val(f'(lookup {a.term})', OPTINT), e1)
            return self.tx(e.args[0], env, lambda a, e1: self.force(a, e1, lk))
        raise TranslationError(f'call outside subset: {ast.unparse(e)}')

    def opt_term(self, v, env):
        """a value as a Lean term of type Option Int"""
        if v.ty == OPTINT:
            v = env.known.get(v.term, v)
        if v.ty == OPTINT:
            return v.term
        if v.ty == INT:
            return f'(some {v.term})'
        if v.ty == NONE:
            return 'none'
        raise TranslationError(f'{v.ty} where None or an integer is expected')

    # ------------------------------------------------------------------ tests (short-circuit, path-sensitive)
    def cond(self, test, env, kt, kf):
        if isinstance(test, ast.BoolOp):
            vals = test.values
            if isinstance(test.op, ast.Or):
                def go(i, env_i):
                    if i == len(vals) - 1:
                        return self.cond(vals[i], env_i, kt, kf)
                    return self.cond(vals[i], env_i, kt, lambda ef: go(i + 1, ef))
            else:
                def go(i, env_i):
                    if i == len(vals) - 1:
                        return self.cond(vals[i], env_i, kt, kf)
                    return self.cond(vals[i], env_i, lambda et: go(i + 1, et), kf)
            return go(0, env)
        if isinstance(test, ast.UnaryOp) and isinstance(test.op, ast.Not):
            return self.cond(test.operand, env, kf, kt)
        if isinstance(test, (ast.Name, ast.Constant)):
            def truth(v, e1):
                if v.ty == BOOLV:
                    return f'if {v.term} then\n{ind(kt(e1.copy()))}\nelse\n{ind(kf(e1.copy()))}'
                if v.ty != BOOL:
                    raise TranslationError(f'truthiness of {v.ty}: {ast.unparse(test)}')
                return (kt if v.const else kf)(e1)
            return self.tx(test, env, truth)
        if isinstance(test, ast.Call) and isinstance(test.func, ast.Name) and test.func.id == 'isinstance' and len(test.args) == 2 \
                and not test.keywords and ast.unparse(test.args[1]) in ('slice', 'list'):
            cls_name = ast.unparse(test.args[1])

            def isl(v, e1):
                # trusted typing: the key is a slice, a Python list of labels, or a label (which is neither)
                if v.ty not in (KEY, LIST, LAB):
                    raise TranslationError(f'isinstance(_, {cls_name}) of {v.ty}')
                return (kt if v.ty == {'slice': KEY, 'list': LIST}[cls_name] else kf)(e1)
            return self.tx(test.args[0], env, isl)
        if isinstance(test, ast.Compare) and len(test.ops) == 1:
            op, left, right = test.ops[0], test.left, test.comparators[0]
            if isinstance(op, (ast.Is, ast.IsNot)):
                yes, no = (kt, kf) if isinstance(op, ast.Is) else (kf, kt)
                if isinstance(right, ast.Constant) and right.value is None:
                    def isnone(v, e1):
                        if v.ty == NONE:
                            return yes(e1)
                        if v.ty in (INT, LAB):
                            return no(e1)
                        raise TranslationError(f'`is None` of {v.ty}: {ast.unparse(test)}')
                    return self.tx(left, env, lambda v, e1: self.force(v, e1, isnone))
                if isinstance(right, ast.Name) and right.id == 'int':
                    # the class of a step is not part of the subset: a test of the CLASS (`key.step.__class__ is int`, the
                    # pinned code that missed np.integer steps - finding F90, repaired in b8dc316) is rejected; the
                    # direction of a slice is read from the VALUE of the step (`key.step is not None and key.step < 0`)
                    raise TranslationError(f'test of the class of an integer: {ast.unparse(test)} (only its value is modelled)')
                if ast.unparse(right) == 'np.ndarray':
                    def isarr(c, e1):
                        # trusted typing: a Python list / a label is not an ndarray
                        if c.ty != CLASSOF or c.fields[0].ty not in (LIST, LAB):
                            raise TranslationError(f'identity test outside subset: {ast.unparse(test)}')
                        return no(e1)
                    return self.tx(left, env, isarr)
                raise TranslationError(f'identity test outside subset: {ast.unparse(test)}')
            sym = {ast.Lt: '<', ast.LtE: '≤', ast.Gt: '>', ast.GtE: '≥', ast.Eq: '=', ast.NotEq: '≠'}.get(type(op))
            if sym is None:
                raise TranslationError(f'comparison outside subset: {ast.unparse(test)}')

            def cmp(a, b, e2):
                eq = sym in ('=', '≠')
                if a.ty == STR and b.ty == STR and eq:
                    return (kt if (a.const == b.const) == (sym == '=') else kf)(e2)
                if eq and {a.ty, b.ty} == {KEY, SLICE}:
                    c = b if b.ty == SLICE else a
                    parts = []
                    for name, fv in zip(FIELDS, c.fields):
                        if fv.ty == NONE:
                            parts.append(f'key_{name}.isNone')
                        elif fv.ty == INT and name == 'step':
                            parts.append(f'(key_{name} == some {fv.term})')
                        else:
                            raise TranslationError(f'comparison of the key with {ast.unparse(test)}: field {name}')
                    yes, no = (kt, kf) if sym == '=' else (kf, kt)
                    return f'if ({" && ".join(parts)}) then\n{ind(yes(e2.copy()))}\nelse\n{ind(no(e2.copy()))}'
                if {a.ty, b.ty} <= {INT, NONE}:
                    if NONE in (a.ty, b.ty):
                        if eq:
                            return (kt if (a.ty == b.ty) == (sym == '=') else kf)(e2)
                        return '.error Exc.TypeError /- ordering comparison with None -/'
                    return f'if {a.term} {sym} {b.term} then\n{ind(kt(e2.copy()))}\nelse\n{ind(kf(e2.copy()))}'
                raise TranslationError(f'comparison of {a.ty}, {b.ty}: {ast.unparse(test)}')
            return self.tx(left, env, lambda a, e1: self.force(a, e1, lambda a2, e2: self.tx(
                right, e2, lambda b, e3: self.force(b, e3, lambda b2, e4: cmp(a2, b2, e4)))))
        raise TranslationError(f'test outside subset: {ast.unparse(test)}')

    # ------------------------------------------------------------------ statements
    def assign(self, name, v, env, rest):
        if name in self.params or name in self.consts or name in ('cls', 'self', 'field'):
            raise TranslationError(f'assignment to {name} (a parameter / constant)')
        e2 = env.copy()
        if v.ty in (INT, OPTINT) and not is_atom(v.term):
            ln = e2.fresh(name)
            e2.vars[name] = Val(ln, v.ty)
            return f'let {ln} := {v.term}\n' + self.block(rest, e2)
        if v.ty not in (INT, OPTINT, NONE, LAB, OPTLAB, BOOL):
            raise TranslationError(f'assignment of {v.ty} to {name}')
        e2.vars[name] = v
        return self.block(rest, e2)

    def block(self, stmts, env):
        if not stmts:
            return self.on_end(env)
        s, rest = stmts[0], list(stmts[1:])
        if isinstance(s, ast.Expr) and isinstance(s.value, ast.Constant) and isinstance(s.value.value, str):
            return self.block(rest, env)
        if isinstance(s, ast.Expr) and isinstance(s.value, ast.Yield):
            if self.field is None or s.value.value is None:
                raise TranslationError(f'statement outside subset: {ast.unparse(s)[:80]}')

            def emit(v, e1):
                if e1.yielded is not None:
                    raise TranslationError('two yields on one path of an iteration')
                if v.ty not in (INT, NONE, OPTINT):
                    raise TranslationError(f'yield of {v.ty}')
                e2 = e1.copy()
                e2.yielded = v
                return self.block(rest, e2)
            return self.tx(s.value.value, env, emit)
        if isinstance(s, ast.Assign) and len(s.targets) == 1 and isinstance(s.targets[0], ast.Name):
            return self.tx(s.value, env, lambda v, e1: self.assign(s.targets[0].id, v, e1, rest))
        if isinstance(s, ast.AugAssign) and isinstance(s.target, ast.Name) and isinstance(s.op, (ast.Add, ast.Sub)):
            e = ast.BinOp(left=ast.Name(id=s.target.id, ctx=ast.Load()), op=s.op, right=s.value)
            return self.tx(e, env, lambda v, e1: self.assign(s.target.id, v, e1, rest))
        if isinstance(s, ast.If):
            if is_datetime_test(s.test):
                if self.field is None:
                    return self.datetime_key(s, env, rest)
                return self.datetime_arm(s, env, rest)
            return self.cond(s.test, env,
                             lambda et: self.block(list(s.body) + rest, et),
                             lambda ef: self.block(list(s.orelse) + rest, ef))
        if isinstance(s, ast.Raise):
            exc = s.exc
            if isinstance(exc, ast.Call) and not exc.keywords:
                for a in exc.args:     # the message arguments: evaluated (they must be readable), otherwise ignored
                    if not isinstance(a, (ast.Name, ast.Constant)):
                        raise TranslationError(f'raise argument outside subset: {ast.unparse(s)}')
                    if isinstance(a, ast.Name) and a.id not in env.vars and a.id not in self.consts:
                        raise TranslationError(f'raise reads {a.id}, which is not bound here')
                exc = exc.func
            if not (isinstance(exc, ast.Name) and exc.id in EXCEPTIONS) or s.cause is not None:
                raise TranslationError(f'raise outside subset: {ast.unparse(s)}')
            return f'.error Exc.{exc.id}'
        if isinstance(s, ast.Return):
            if self.on_return is None or s.value is None:
                raise TranslationError(f'statement outside subset: {ast.unparse(s)[:80]}')
            return self.tx(s.value, env, self.on_return)
        if isinstance(s, ast.Try):
            return self.try_call(s, env, rest)
        raise TranslationError(f'statement outside subset: {ast.unparse(s)[:80]}')

    def datetime_arm(self, s, env, rest):
        """`[el]if isinstance(<x>, np.datetime64): <skipped arm> else: <translated>`"""
        if self.field is None:
            raise TranslationError('isinstance(_, np.datetime64) outside map_slice_args')
        check_skipped_arm(s.body)
        self.skipped.append((self.field, hashlib.sha1(ast.dump(ast.Module(body=s.body, type_ignores=[])).encode()).hexdigest()[:16], len(s.body)))
        if rest:
            # the skipped arm ends in its `yield`; statements after the if-chain would run after it as well
            raise TranslationError('statements after the if-chain that holds the np.datetime64 arm')

        def decided(v, e1):
            other = self.block(list(s.orelse), e1.copy())
            if v.ty == LAB:
                return f'if isDt {v.term} then dtArm Field.{self.field} {v.term}\nelse\n{ind(other)}'
            if v.ty in (INT, NONE):
                return other              # trusted typing: an int / None is not a np.datetime64
            raise TranslationError(f'isinstance(_, np.datetime64) of {v.ty}')
        return self.tx(s.test.args[0], env, lambda v, e1: self.force(v, e1, decided))

    def datetime_key(self, s, env, rest):
        """`if isinstance(key, np.datetime64): <re-binds key>` of loc_to_iloc: a recognised-and-skipped region (trusted
        typing: the key of the translated branches is not a np.datetime64); it must not leave the function"""
        if s.orelse or not (isinstance(s.test.args[0], ast.Name) and s.test.args[0].id in env.vars
                            and env.vars[s.test.args[0].id].ty in (LIST, LAB)):
            raise TranslationError(f'isinstance(_, np.datetime64) outside subset: {ast.unparse(s.test)}')
        for st in s.body:
            for x in ast.walk(st):
                if isinstance(x, (ast.Return, ast.Raise, ast.Yield, ast.YieldFrom, ast.Break, ast.Continue)):
                    raise TranslationError('the np.datetime64 region of loc_to_iloc leaves the function')
        names = assigned_names(s.body)
        if names - {s.test.args[0].id}:
            raise TranslationError(f'the np.datetime64 region of loc_to_iloc assigns {sorted(names)}')
        self.skipped.append(('key', hashlib.sha1(ast.dump(ast.Module(body=s.body, type_ignores=[])).encode()).hexdigest()[:16], len(s.body)))
        return self.block(rest, env)

    def try_call(self, s, env, rest):
        """try: a, b, c = cls.<generator>(...)   except <Exc>: <handler>"""
        ok = (len(s.body) == 1 and isinstance(s.body[0], ast.Assign) and len(s.body[0].targets) == 1
              and isinstance(s.body[0].targets[0], ast.Tuple) and all(isinstance(x, ast.Name) for x in s.body[0].targets[0].elts)
              and len(s.handlers) == 1 and not s.orelse and not s.finalbody
              and isinstance(s.handlers[0].type, ast.Name) and s.handlers[0].type.id in EXCEPTIONS and s.handlers[0].name is None)
        if not ok or self.callee is None:
            raise TranslationError(f'try statement outside subset: {ast.unparse(s)[:80]}')
        call = s.body[0].value
        names = [x.id for x in s.body[0].targets[0].elts]
        cname, nyield, cparams = self.callee
        if not (isinstance(call, ast.Call) and isinstance(call.func, ast.Attribute) and isinstance(call.func.value, ast.Name)
                and call.func.value.id in env.vars and env.vars[call.func.value.id].ty == CLS and call.func.attr == cname
                and not call.keywords and not any(isinstance(a, ast.Starred) for a in call.args)):
            raise TranslationError(f'call outside subset: {ast.unparse(call)}')
        if len(names) != nyield or len(set(names)) != len(names):
            raise TranslationError(f'{len(names)} targets for the {nyield} values {cname} yields')
        if len(call.args) != len(cparams):
            raise TranslationError(f'{cname} is called with {len(call.args)} arguments, translated for {cparams}')
        want = {'label_to_pos': (LOOKUP,), 'key': (KEY,), 'labels': (ARR,), 'offset': (INT, NONE, OPTINT)}

        def many(i, acc, env_i):
            if i == len(call.args):
                return finish(acc, env_i)

            def one(v, e1):
                if v.ty not in want[cparams[i]]:
                    raise TranslationError(f'argument {cparams[i]} of {cname}: {v.ty} ({ast.unparse(call.args[i])})')
                return many(i + 1, acc + [v], e1)
            return self.tx(call.args[i], env_i, one)

        def finish(acc, env_f):
            off = self.opt_term(acc[cparams.index('offset')], env_f)
            e_ok = env_f.copy()
            lns = []
            for n in names:
                if n in self.params or n in self.consts:
                    raise TranslationError(f'assignment to {n} (a parameter / constant)')
                ln = e_ok.fresh(n)
                e_ok.vars[n] = Val(ln, OPTINT)
                lns.append(ln)
            handler = self.block(list(s.handlers[0].body) + rest, env_f.copy())
            body = self.block(rest, e_ok)
            return (f'match {cname} {COMMON_ARGS} {KEY_ARGS} {off} with\n'
                    f'| .error Exc.{s.handlers[0].type.id} =>\n{ind(handler)}\n'
                    f'| .error e_ => .error e_\n'
                    f'| .ok ({", ".join(lns)}) =>\n{ind(body)}')
        return many(0, [], env)


def is_datetime_test(t):
    return (isinstance(t, ast.Call) and isinstance(t.func, ast.Name) and t.func.id == 'isinstance' and len(t.args) == 2
            and not t.keywords and ast.unparse(t.args[1]) == 'np.datetime64')


def check_skipped_arm(body):
    """the np.datetime64 arm is abstracted as `dtArm field attr : Except Exc (Option Int)`: it must yield exactly
    once, as its last statement, and must not leave the loop any other way"""
    if not body or not (isinstance(body[-1], ast.Expr) and isinstance(body[-1].value, ast.Yield)):
        raise TranslationError('the np.datetime64 arm does not end in a yield')
    n = 0
    for st in body:
        for x in ast.walk(st):
            if isinstance(x, (ast.Yield, ast.YieldFrom)):
                n += 1
            if isinstance(x, (ast.Return, ast.Break, ast.Continue)):
                raise TranslationError('return / break / continue in the np.datetime64 arm')
    if n != 1:
        raise TranslationError(f'{n} yields in the np.datetime64 arm')


# ---------------------------------------------------------------------- module constants
def module_constants(tree):
    """SLICE_*_ATTR (strings), SLICE_ATTRS (tuple of them), NULL_SLICE / EMPTY_SLICE (slice displays) from util.py"""
    raw = {}
    for n in tree.body:
        if isinstance(n, ast.Assign) and len(n.targets) == 1 and isinstance(n.targets[0], ast.Name):
            name = n.targets[0].id
            if name in raw:
                raw[name] = None        # assigned twice: not a constant
            else:
                raw[name] = n.value
        elif isinstance(n, (ast.AugAssign, ast.AnnAssign)) and isinstance(n.target, ast.Name):
            raw[n.target.id] = None
    consts = {}
    for name in ('SLICE_START_ATTR', 'SLICE_STOP_ATTR', 'SLICE_STEP_ATTR'):
        v = raw.get(name)
        if not (isinstance(v, ast.Constant) and isinstance(v.value, str)):
            raise TranslationError(f'constant {name}: not a string literal in {UTIL_PY}')
        consts[name] = Val(None, STR, const=v.value)
    v = raw.get('SLICE_ATTRS')
    if not (isinstance(v, ast.Tuple) and all(isinstance(x, ast.Name) and x.id in consts for x in v.elts)):
        raise TranslationError(f'constant SLICE_ATTRS: not a tuple of SLICE_*_ATTR in {UTIL_PY}')
    attrs = [consts[x.id].const for x in v.elts]
    for name in ('NULL_SLICE', 'EMPTY_SLICE'):
        v = raw.get(name)
        if not (isinstance(v, ast.Call) and isinstance(v.func, ast.Name) and v.func.id == 'slice' and not v.keywords and 1 <= len(v.args) <= 3):
            raise TranslationError(f'constant {name}: not a slice display in {UTIL_PY}')
        fs = []
        for a in v.args:
            neg = isinstance(a, ast.UnaryOp) and isinstance(a.op, ast.USub)
            c = a.operand if neg else a
            if isinstance(c, ast.Constant) and c.value is None and not neg:
                fs.append(V_NONE)
            elif isinstance(c, ast.Constant) and isinstance(c.value, int) and not isinstance(c.value, bool):
                fs.append(Val(f'({-c.value if neg else c.value} : Int)', INT))
            else:
                raise TranslationError(f'constant {name}: argument {ast.unparse(a)}')
        if len(fs) == 1:
            fs = [V_NONE, fs[0], V_NONE]
        elif len(fs) == 2:
            fs = fs + [V_NONE]
        consts[name] = Val(None, SLICE, fields=fs)
    return consts, attrs


def imported_names(tree, module, names):
    """index.py must take the constants from util.py (not redefine them)"""
    got = set()
    for n in tree.body:
        if isinstance(n, ast.ImportFrom) and n.module == module:
            for a in n.names:
                if a.asname is None:
                    got.add(a.name)
        elif isinstance(n, ast.Assign):
            for t in n.targets:
                if isinstance(t, ast.Name) and t.id in names:
                    raise TranslationError(f'{t.id} is re-assigned in {INDEX_PY}')
    return got


def find_method(tree, cls, name):
    for n in tree.body:
        if isinstance(n, ast.ClassDef) and n.name == cls:
            found = [m for m in n.body if isinstance(m, ast.FunctionDef) and m.name == name]
            if len(found) != 1:
                raise TranslationError(f'{cls}.{name}: {len(found)} definitions')
            return found[0]
    raise TranslationError(f'class {cls} not found')


def decorators(fn):
    out = []
    for d in fn.decorator_list:
        if not isinstance(d, ast.Name):
            raise TranslationError(f'{fn.name}: decorator outside subset')
        out.append(d.id)
    return out


def assigned_names(stmts):
    out = set()
    for st in stmts:
        for x in ast.walk(st):
            if isinstance(x, ast.Name) and isinstance(x.ctx, (ast.Store, ast.Del)):
                out.add(x.id)
            if isinstance(x, (ast.NamedExpr, ast.Global, ast.Nonlocal, ast.FunctionDef, ast.Lambda, ast.ClassDef, ast.With,
                              ast.While, ast.Import, ast.ImportFrom, ast.Delete, ast.Await, ast.YieldFrom)):
                raise TranslationError(f'statement outside subset: {ast.unparse(x)[:60]}')
    return out


def strip_datetime_arm(stmts):
    """the statements of the translated region (the skipped arm removed), for the purity / assignment checks"""
    out = []
    for st in stmts:
        if isinstance(st, ast.If):
            body = [] if is_datetime_test(st.test) else strip_datetime_arm(st.body)
            out.append(ast.If(test=st.test, body=body or [ast.Pass()], orelse=strip_datetime_arm(st.orelse)))
        else:
            out.append(st)
    return out


# ---------------------------------------------------------------------- the two functions
MSA_PARAMS = ['label_to_pos', 'key', 'labels', 'offset']
L2I_PARAMS = ['label_to_pos', 'labels', 'positions', 'key', 'offset', 'partial_selection']


def param_env(names, extra=None, key=None):
    table = {'key': key or Val(None, KEY), 'labels': Val(None, ARR), 'positions': Val(None, POSITIONS), 'offset': Val('offset', OPTINT),
             'partial_selection': Val('partial_selection', BOOLV)}
    env = Env()
    for n in names:
        if n == 'label_to_pos':
            env.vars[n] = extra
        else:
            env.vars[n] = table[n]
    return env


def translate_map_slice_args(tree, consts, attrs):
    fn = find_method(tree, 'LocMap', 'map_slice_args')
    if decorators(fn) != ['staticmethod']:
        raise TranslationError('map_slice_args: not a staticmethod')
    a = fn.args
    if a.posonlyargs or a.kwonlyargs or a.vararg or a.kwarg or [x.arg for x in a.args] != MSA_PARAMS:
        raise TranslationError(f'map_slice_args: parameters {[x.arg for x in a.args]} differ from {MSA_PARAMS}')
    if [ast.unparse(d) for d in a.defaults] != ['None', '0']:
        raise TranslationError('map_slice_args: defaults differ from labels=None, offset=0')    # (every argument is given by the caller)
    body = [s for s in fn.body if not (isinstance(s, ast.Expr) and isinstance(s.value, ast.Constant))]
    loops = [i for i, s in enumerate(body) if isinstance(s, ast.For)]
    if len(loops) != 1 or loops[0] != len(body) - 1:
        raise TranslationError('map_slice_args: expected <assignments>; for field in SLICE_ATTRS: <body> and nothing after the loop')
    loop = body[-1]
    prelude = body[:-1]
    if loop.orelse or not (isinstance(loop.target, ast.Name) and loop.target.id == 'field') \
            or not (isinstance(loop.iter, ast.Name) and loop.iter.id == 'SLICE_ATTRS'):
        raise TranslationError(f'map_slice_args: loop header outside subset: for {ast.unparse(loop.target)} in {ast.unparse(loop.iter)}')
    for st in prelude:
        if not (isinstance(st, ast.Assign) and len(st.targets) == 1 and isinstance(st.targets[0], ast.Name)):
            raise TranslationError(f'map_slice_args: statement before the loop outside subset: {ast.unparse(st)[:60]}')
        if any(isinstance(x, (ast.Yield, ast.YieldFrom)) for x in ast.walk(st)):
            raise TranslationError('map_slice_args: yield before the loop')
    pre_names = assigned_names(prelude)
    core = strip_datetime_arm(loop.body)
    body_names = assigned_names(core)
    if body_names & (pre_names | set(MSA_PARAMS) | {'field'}):
        raise TranslationError(f'map_slice_args: the loop body assigns {sorted(body_names & (pre_names | set(MSA_PARAMS) | {"field"}))} (state carried between iterations)')
    for st in core:
        for x in ast.walk(st):
            if isinstance(x, (ast.For, ast.Break, ast.Continue, ast.Return, ast.Try)):
                raise TranslationError(f'map_slice_args: {type(x).__name__} in the loop body')
    if len(attrs) != 3:
        raise TranslationError(f'SLICE_ATTRS has {len(attrs)} entries (loc_to_iloc unpacks three values)')
    out, skipped = [], []
    for f in attrs:
        if f not in FIELDS:
            raise TranslationError(f'a slice has no attribute {f!r}')
        tr = Tr(consts, set(MSA_PARAMS), field=f)

        def end(env):
            if env.yielded is None:
                raise TranslationError(f'an iteration (field {f}) ends without a yield')
            return '.ok ' + tr.opt_term(env.yielded, env)
        tr.on_end = end
        env = param_env(MSA_PARAMS, Val('lookup', LOOKUP))
        env.vars['field'] = Val(None, STR, const=f)
        text = tr.block(prelude + list(loop.body), env)
        if not tr.skipped:
            raise TranslationError(f'the `elif isinstance(attr, np.datetime64):` arm is not there (iteration {f!r})')
        out.append(f'-- the iteration `field = {f!r}` of the loop over SLICE_ATTRS\n'
                   f'def map_slice_args_{f} {DT_SIG}\n    {KEY_SIG} (offset : Option Int) : Except Exc (Option Int) :=\n{ind(text)}\n')
        skipped += tr.skipped
    if len(set(attrs)) != 3:
        raise TranslationError(f'SLICE_ATTRS repeats a field: {attrs}')
    rs = [f'r_{f}' for f in attrs]
    comb = ''
    for i, f in enumerate(attrs):
        comb += '  ' * i + f'match map_slice_args_{f} {COMMON_ARGS} {KEY_ARGS} offset with\n'
        comb += '  ' * i + '| .error e_ => .error e_\n'
        comb += '  ' * i + f'| .ok {rs[i]} =>\n'
    comb += '  ' * 3 + f'.ok ({", ".join(rs)})'
    out.append(f'-- the values yielded, in the order of SLICE_ATTRS = {tuple(attrs)!r}\n'
               f'def map_slice_args {DT_SIG}\n    {KEY_SIG} (offset : Option Int) :\n'
               f'    Except Exc (Option Int × Option Int × Option Int) :=\n{ind(comb)}\n')
    notes = [f'-- skipped region: the np.datetime64 arm (abstracted as isDt / dtArm): {n} statements, sha1 {h}'
             for h, n in sorted({(h, n) for _, h, n in skipped})]
    return '\n'.join(out), notes


def translate_loc_to_iloc_slice(tree, consts, nyield):
    fn = find_method(tree, 'LocMap', 'loc_to_iloc')
    if decorators(fn) != ['classmethod']:
        raise TranslationError('loc_to_iloc: not a classmethod')
    a = fn.args
    if a.posonlyargs or a.vararg or a.kwarg or [x.arg for x in a.args] != ['cls'] or [x.arg for x in a.kwonlyargs] != L2I_PARAMS:
        raise TranslationError(f'loc_to_iloc: parameters differ from cls, *, {L2I_PARAMS}')
    if [None if d is None else ast.unparse(d) for d in a.kw_defaults] != [None, None, None, None, 'None', 'False']:
        raise TranslationError('loc_to_iloc: defaults differ from offset=None, partial_selection=False')
    body = [s for s in fn.body if not (isinstance(s, ast.Expr) and isinstance(s.value, ast.Constant))]
    idx = [i for i, s in enumerate(body) if isinstance(s, ast.If) and ast.unparse(s.test) == 'isinstance(key, slice)']
    if len(idx) != 1:
        raise TranslationError('loc_to_iloc: expected exactly one top-level `if isinstance(key, slice):`')
    branch = body[idx[0]]
    prelude = body[:idx[0]]
    if branch.orelse:
        raise TranslationError('loc_to_iloc: the slice branch has an else')
    for st in prelude:
        if not (isinstance(st, ast.Assign) and len(st.targets) == 1 and isinstance(st.targets[0], ast.Name)):
            raise TranslationError(f'loc_to_iloc: statement before the slice branch outside subset: {ast.unparse(st)[:60]}')
    assigned_names(prelude + list(branch.body))
    tr = Tr(consts, set(L2I_PARAMS) | {'cls'})
    tr.callee = ('map_slice_args', nyield, MSA_PARAMS)

    def end(env):
        raise TranslationError('loc_to_iloc: a path of the slice branch does not return (it would fall into the other branches)')

    def ret(v, env):
        if v.ty != SLICE:
            raise TranslationError(f'loc_to_iloc: the slice branch returns {v.ty}')
        return '.ok (PySlice.mk ' + ' '.join(tr.opt_term(f, env) for f in v.fields) + ')'
    tr.on_end, tr.on_return = end, ret
    env = param_env(L2I_PARAMS, Val(None, DICT))
    env.vars['cls'] = Val(None, CLS)
    text = tr.block(prelude + [branch], env)
    return (f'-- the statements before, and the whole of, the branch `if isinstance(key, slice):`\n'
            f'def loc_to_iloc_slice {DT_SIG}\n    (positions_len : Nat) {KEY_SIG} (offset : Option Int) :\n'
            f'    Except Exc PySlice :=\n{ind(text)}\n')


def translate_loc_to_iloc_rest(tree, consts, which):
    """the whole body of loc_to_iloc for a key that is a Python list of labels (`which` = 'list') / a single label
    ('element'): the slice branch and the ndarray tests fold away by the typing of the key"""
    fn = find_method(tree, 'LocMap', 'loc_to_iloc')
    body = [s for s in fn.body if not (isinstance(s, ast.Expr) and isinstance(s.value, ast.Constant))]
    assigned_names(strip_datetime_arm(body))
    tr = Tr(consts, (set(L2I_PARAMS) - {'key'}) | {'cls'})        # `key` is re-bound only inside the skipped datetime region

    def end(env):
        raise TranslationError(f'loc_to_iloc: a path for a {which} key falls off the end of the function')

    def ret(v, env):
        if which == 'list':
            if v.ty != RESULT:
                raise TranslationError(f'loc_to_iloc: a list key returns {v.ty}')
            return v.term

        def fin(v2, e2):
            if v2.ty != INT:
                raise TranslationError(f'loc_to_iloc: an element key returns {v2.ty}')
            return f'.ok {v2.term}'
        return tr.force(v, env, fin)
    tr.on_end, tr.on_return = end, ret
    key = Val('key', LIST) if which == 'list' else Val('key', LAB)
    env = param_env(L2I_PARAMS, Val(None, DICT), key=key)
    env.vars['cls'] = Val(None, CLS)
    text = tr.block(body, env)
    if not any(f == 'key' for f, _, _ in tr.skipped):
        raise TranslationError('loc_to_iloc: the `if isinstance(key, np.datetime64):` region is not there')
    notes = [f'-- skipped region: `if isinstance(key, np.datetime64):` of loc_to_iloc: {n} statements, sha1 {h}'
             for h, n in sorted({(h, n) for _, h, n in tr.skipped})]
    if which == 'list':
        sig = ('def loc_to_iloc_list {L : Type} (lookup : L → Option Int) (key : List L) (offset : Option Int)\n'
               '    (partial_selection : Bool) : Except Exc (List Int) :=')
        head = '-- the whole function for `key` a Python list of labels (not an ndarray): the list branch'
    else:
        sig = ('def loc_to_iloc_element {L : Type} (lookup : L → Option Int) (key : L) (offset : Option Int)\n'
               '    (partial_selection : Bool) : Except Exc Int :=')
        head = '-- the whole function for `key` a single label (not a slice / list / ndarray / np.datetime64): the element branch'
    return '\n'.join(notes + [head, sig, ind(text)]) + '\n'


HEADER = '''-- GENERATED by tools/py2lean_locmap.py from the current static_frame/core/index.py (class LocMap) and the
-- constants SLICE_*_ATTR, SLICE_ATTRS, NULL_SLICE, EMPTY_SLICE of static_frame/core/util.py; do not edit.
import SFModel.Slice

set_option linter.unusedVariables false

namespace SF.Gen.LocMap

/-- the exceptions of the translated region (TypeError: arithmetic / ordering on None; KeyError: `label_to_pos[k]`) -/
inductive Exc
  | LocInvalid | LocEmpty | TypeError | KeyError
deriving DecidableEq, Repr

/-- the value of `field` in an iteration of `for field in SLICE_ATTRS` -/
inductive Field
  | start | stop | step
deriving DecidableEq, Repr
'''

STUB_MSA = ''.join(
    f'def map_slice_args_{f} {DT_SIG}\n    {KEY_SIG} (offset : Option Int) : Except Exc (Option Int) := .error Exc.TypeError\n\n'
    for f in FIELDS) + (
    f'def map_slice_args {DT_SIG}\n    {KEY_SIG} (offset : Option Int) :\n'
    f'    Except Exc (Option Int × Option Int × Option Int) := .error Exc.TypeError\n')
STUB_L2I = (f'def loc_to_iloc_slice {DT_SIG}\n    (positions_len : Nat) {KEY_SIG} (offset : Option Int) :\n'
            f'    Except Exc PySlice := .error Exc.TypeError\n')


STUB_LIST = ('def loc_to_iloc_list {L : Type} (lookup : L → Option Int) (key : List L) (offset : Option Int)\n'
             '    (partial_selection : Bool) : Except Exc (List Int) := .error Exc.TypeError\n')
STUB_ELEM = ('def loc_to_iloc_element {L : Type} (lookup : L → Option Int) (key : L) (offset : Option Int)\n'
             '    (partial_selection : Bool) : Except Exc Int := .error Exc.TypeError\n')


def generate(repo):
    """Returns (text, list of error strings)."""
    out = [HEADER]
    errors = []
    consts, attrs, tree = None, None, None
    try:
        utree = ast.parse(open(os.path.join(repo, UTIL_PY)).read())
        consts, attrs = module_constants(utree)
        tree = ast.parse(open(os.path.join(repo, INDEX_PY)).read())
        need = set(consts) | {'SLICE_ATTRS'}
        got = imported_names(tree, 'static_frame.core.util', need)
        used = {x.id for m in ('map_slice_args', 'loc_to_iloc') for x in ast.walk(find_method(tree, 'LocMap', m)) if isinstance(x, ast.Name)}
        missing = (need & used) - got
        if missing:
            raise TranslationError(f'{sorted(missing)} not imported from static_frame.core.util in {INDEX_PY}')
        exc = imported_names(tree, 'static_frame.core.exception', set(EXCEPTIONS))
        if not set(EXCEPTIONS) <= exc:
            raise TranslationError(f'{EXCEPTIONS} not imported from static_frame.core.exception')
    except (TranslationError, SyntaxError, OSError) as ex:
        errors.append(f'constants: {ex}')
    nyield = 3
    out.append(f'-- {INDEX_PY} :: LocMap.map_slice_args (the np.datetime64 arm abstracted as isDt / dtArm)')
    try:
        if errors:
            raise TranslationError('constants unavailable')
        text, notes = translate_map_slice_args(tree, consts, attrs)
        out += notes
        out.append(text)
    except Exception as ex:  # noqa: BLE001 - TranslationError, or a shape of the AST the translator did not expect: both are rejections
        errors.append(f'map_slice_args: {type(ex).__name__ + ": " if not isinstance(ex, TranslationError) else ""}{ex}')
        out.append(f'-- TRANSLATION FAILED: {ex}')
        out.append(STUB_MSA)
    out.append(f'-- {INDEX_PY} :: LocMap.loc_to_iloc, slice branch')
    try:
        if consts is None or tree is None:
            raise TranslationError('constants unavailable')
        out.append(translate_loc_to_iloc_slice(tree, consts, nyield))
    except Exception as ex:  # noqa: BLE001
        errors.append(f'loc_to_iloc: {type(ex).__name__ + ": " if not isinstance(ex, TranslationError) else ""}{ex}')
        out.append(f'-- TRANSLATION FAILED: {ex}')
        out.append(STUB_L2I)
    for which, stub in (('list', STUB_LIST), ('element', STUB_ELEM)):
        out.append(f'-- {INDEX_PY} :: LocMap.loc_to_iloc, {which} branch')
        try:
            if consts is None or tree is None:
                raise TranslationError('constants unavailable')
            out.append(translate_loc_to_iloc_rest(tree, consts, which))
        except Exception as ex:  # noqa: BLE001
            errors.append(f'loc_to_iloc ({which} key): {type(ex).__name__ + ": " if not isinstance(ex, TranslationError) else ""}{ex}')
            out.append(f'-- TRANSLATION FAILED: {ex}')
            out.append(stub)
    out.append('end SF.Gen.LocMap')
    return '\n'.join(out) + '\n', errors


def main():
    ap = argparse.ArgumentParser()
    ap.add_argument('--repo', default='/repo')
    ap.add_argument('--out', default=os.path.join(os.path.dirname(os.path.dirname(os.path.abspath(__file__))), 'lean', 'SFModel', 'Gen'))
    ap.add_argument('--check', action='store_true', help='do not write: rc 1 on a translation error or if the file on disk differs')
    a = ap.parse_args()
    text, errors = generate(a.repo)
    os.makedirs(a.out, exist_ok=True)
    target = os.path.join(a.out, 'LocMap.lean')
    old = open(target).read() if os.path.exists(target) else None
    if a.check:
        for e in errors:
            print('py2lean_locmap: TRANSLATION-ERROR', e)
        print('py2lean_locmap: up to date' if old == text else f'py2lean_locmap: {target} differs from the translation of the current source')
        return 1 if errors or old != text else 0
    if old != text:
        with open(target, 'w') as f:
            f.write(text)
        print(f'py2lean_locmap: wrote {target}')
    else:
        print('py2lean_locmap: unchanged')
    for e in errors:
        print('py2lean_locmap: TRANSLATION-ERROR', e)
    return 1 if errors else 0


if __name__ == '__main__':
    sys.exit(main())
