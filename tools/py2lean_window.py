#!/venv/bin/python
"""py2lean_window - translate the arithmetic / decision skeleton of static-frame's window loop
(`container_util.axis_window_items`) from the *current* source into Lean 4
(lean/SFModel/Gen/Window.lean).  The bridge lemmas in lean/SFModel/BridgeWindow.lean prove the generated
definitions equal the hand-written mirrored ones of lean/SFModel/Window.lean (`winBody`, `winExit`,
`countWindowMax`, the initial `WinSt`, `winLoop`, `windows`) that the C13 window theorems are about; a
source change that alters the skeleton breaks a proof obligation, a statement outside the subset is a
TRANSLATION-ERROR (the generated stub then makes the bridge lemmas fail) - never a guess, never a skip.

What is translated (everything below comes from the source text: every arithmetic expression, comparison
operator, constant, assignment target and the order of the statements):
  * the argument guards `if <test>: raise <Exc>(...)`                         -> `.error <Err>`
  * the prelude up to the loop (`count_window_max`, `idx_left_max`, `idx_left`, `count`)
                                                      -> `axis_window_items_init` (values at loop entry)
  * one pass through the body of `while True:` incl. the state update and the `if <test>: break`
                                                      -> `axis_window_items_step`
        = (values yielded in this pass, the loop-carried variables afterwards, True iff `break` was reached)
  * the loop itself (with a fuel argument) and the whole generator -> `axis_window_items_loop`, `axis_window_items`
  * the defaults of the keyword parameters            -> `axis_window_items_defaults`

Subset of the skeleton (trusted semantics):
  * ints are unbounded (`Int`); `+ - *`, unary `-`, `abs`, `len(labels)` (= `n`, the length of the windowed
    axis), conditional expressions, comparisons `< <= > >= == !=`, `and` / `or` / `not` (short-circuit)
  * `<name> = <int expr>`, `<name> += / -= / *= <int expr>`, `<name> = True | False` (Boolean locals are tracked
    as constants: a test on them is decided at translation time on each path), `key = slice(<int>, <int>)`
  * `if / elif / else` (the continuation is duplicated in both arms: path-sensitive, as tools/py2lean.py)
  * `try: ... except <Exc>: ...` (one handler, a class name) with `raise <Exc>()` in its body: a jump to the
    handler with the bindings made so far; `<name> = labels.iloc[<int expr>]` raises IndexError exactly when
    `WindowSem.ilocPos n i = none` (NumPy integer indexing: negative positions count from the end)
  * `window.shape[axis]` is the number of positions of the window (`WindowSem.sliceWindow start stop n`:
    CPython slice clamping of `key` on an axis of `n` entries); after `window = window_func(window)` it is
    no longer readable
  * truthiness: `window_sized` (a bool parameter); `window_valid` (Optional callable: None is falsy, narrowed
    to the callable in the true arm); `window_valid(window)` is the Boolean parameter
    `valid (first position) (number of positions)` of the model; truthiness of an int is outside the subset
  * `yield label, window` appends `(label position, first position, number of positions)`
  * `while True:` exactly once, at top level, last statement; `break` only inside it; a `raise` / IndexError
    that would escape the loop body is outside the subset; a local first assigned inside the loop is unbound
    at the start of every pass (reading it before its assignment in that pass is outside the subset)

Data-only statements (abstracted; each must match one of these shapes, anything else is rejected):
  * the docstring, `from static_frame.core.<m> import <names>`, `assert isinstance(source, <Name>)`
  * `<d> = <data expr>` / `<d>: <ann> = <data expr>` where <data expr> is `None`, an attribute chain on
    `source`, or a conditional expression of those on a data test; `_index` / `_columns` make <d> the label
    container (the only thing `len(...)` and `.iloc[...]` accept)
  * `window = <extraction of key>`: `<d>[key]` or `source._extract*( key | NULL_SLICE, key | row_key=key |
    column_key=key )` - the model's window is `sliceWindow key n` whichever call produces it
  * `window = window_func(window)`
  * `if <data test>: <data-only> [else: <data-only>]`, data tests being built from `source_ndim == c`,
    `axis == c`, `as_array`, `window_func`, `<d> is [not] None`, `isinstance(source, <Name>)`, and / or / not.
    After it `window` is bound only if every branch bound it.
  Trusted about them: which labels / which extraction belongs to which axis (compared on every run by the
  correspondence cases of harness/sfv/props/c13.py: labels and contents of the real windows).

usage: py2lean_window.py [--repo /repo] [--out lean/SFModel/Gen] [--check] [--stdout]
"""
from __future__ import annotations

import argparse
import ast
import os
import sys
import textwrap

INT, BOOL, SLICE2, WIN, WINMAPPED, LABEL, LABELS, CALLOPT, CALL, DATA = (
    'Int', 'Bool', 'Slice2', 'Window', 'WindowMapped', 'Label', 'Labels', 'OptCallable', 'Callable', 'Data')

PATH = 'static_frame/core/container_util.py'
NAME = 'axis_window_items'
# keyword-only parameters: (name, annotation text or None = any, role)
PARAMS = [
    ('source', None, DATA),
    ('size', 'int', INT),
    ('axis', 'int', DATA),
    ('step', 'int', INT),
    ('window_sized', 'bool', BOOL),
    ('window_func', 'Optional[AnyCallable]', DATA),
    ('window_valid', 'Optional[AnyCallable]', CALLOPT),
    ('label_shift', 'int', INT),
    ('start_shift', 'int', INT),
    ('size_increment', 'int', INT),
    ('as_array', 'bool', DATA),
]
SK_PARAMS = [(p, r) for p, _, r in PARAMS if r != DATA]
# the bridge lemmas are stated for these loop-entry locals / loop-carried variables; anything else is a
# translation error (the statements of BridgeWindow.lean would no longer be about the code)
EXPECT_ENTRY = ['count_window_max', 'idx_left_max', 'idx_left', 'count']
EXPECT_STATE = ['idx_left', 'size', 'count']
EXPECT_DEFAULTS = ['step', 'window_sized', 'label_shift', 'start_shift', 'size_increment']     # + window_valid is None

LEAN_TY = {INT: 'Int', BOOL: 'Bool', CALLOPT: 'Option (Nat → Nat → Bool)'}
EXC = {'RuntimeError': 'shape', 'ValueError': 'value', 'TypeError': 'value', 'IndexError': 'lookup', 'KeyError': 'lookup',
       'NotImplementedError': 'other'}
RESERVED = {'some', 'none', 'match', 'with', 'if', 'then', 'else', 'let', 'fun', 'def', 'do', 'at', 'have', 'show', 'end', 'open', 'in',
            'from', 'by', 'where', 'Type', 'Int', 'Nat', 'List', 'Option', 'true', 'false', 'min', 'max', 'n', 'fuel', 'out_', 'rest_',
            'r_', 'ws_', 'e_'}
WIN_TY = 'Nat × Nat × Nat'


class TranslationError(Exception):
    pass


def ind(s, n=2):
    return textwrap.indent(s, ' ' * n)


def src_of(node, limit=90):
    return ast.unparse(node).split('\n')[0][:limit]


class Env:
    def __init__(self, vars=None, out='[]'):
        self.vars = dict(vars or {})      # python name -> (lean term or None, type)
        self.out = out                    # lean term: the values yielded so far in this pass

    def copy(self):
        return Env(self.vars, self.out)


class Translator:
    def __init__(self):
        self.counter = 0
        self.data_stmts = {}          # recognised data-only statements by position (reported in the header of the generated file)
        self.entry = None             # bindings at loop entry: ([(name, type)] skeleton locals, {name: type} data bindings)
        self.loop_node = None
        self.state = None
        self.kbreak = None

    def fresh(self, base):
        self.counter += 1
        return f'{base}_{self.counter}'

    # ------------------------------------------------------------------ integer expressions
    def int_expr(self, e, env):
        if isinstance(e, ast.Constant):
            if isinstance(e.value, bool) or not isinstance(e.value, int):
                raise TranslationError(f'constant {e.value!r} where an integer is expected')
            return f'({e.value} : Int)'
        if isinstance(e, ast.Name):
            t, ty = self.lookup(e.id, env)
            if ty != INT:
                raise TranslationError(f'{e.id} is {ty}, an integer is expected')
            return t
        if isinstance(e, ast.UnaryOp) and isinstance(e.op, ast.USub):
            return f'(-{self.int_expr(e.operand, env)})'
        if isinstance(e, ast.BinOp):
            sym = {ast.Add: '+', ast.Sub: '-', ast.Mult: '*'}.get(type(e.op))
            if sym is None:
                raise TranslationError(f'operator {type(e.op).__name__} outside subset: {src_of(e)}')
            return f'({self.int_expr(e.left, env)} {sym} {self.int_expr(e.right, env)})'
        if isinstance(e, ast.IfExp):
            return f'(if {self.prop(e.test, env)} then {self.int_expr(e.body, env)} else {self.int_expr(e.orelse, env)})'
        if isinstance(e, ast.Call) and isinstance(e.func, ast.Name) and not e.keywords and len(e.args) == 1 \
                and not isinstance(e.args[0], ast.Starred) and e.func.id not in env.vars:
            if e.func.id == 'abs':
                return f'((Int.natAbs {self.int_expr(e.args[0], env)} : Nat) : Int)'
            if e.func.id == 'len':
                a = e.args[0]
                if isinstance(a, ast.Name) and self.lookup(a.id, env)[1] == LABELS:
                    return '(n : Int)'
                raise TranslationError(f'len of something that is not the label container: {src_of(e)}')
        if (isinstance(e, ast.Subscript) and isinstance(e.value, ast.Attribute) and e.value.attr == 'shape'
                and isinstance(e.value.value, ast.Name) and isinstance(e.slice, ast.Name) and e.slice.id == 'axis'
                and env.vars.get('axis', (None, None))[1] == DATA):
            t, ty = self.lookup(e.value.value.id, env)
            if ty != WIN:
                raise TranslationError(f'{src_of(e)}: {e.value.value.id} is {ty}, not an extracted window')
            return f'(({t}.2 : Nat) : Int)'
        raise TranslationError(f'integer expression outside subset: {src_of(e)}')

    def lookup(self, name, env):
        if name not in env.vars:
            raise TranslationError(f'{name} is unknown or may be unbound here')
        return env.vars[name]

    def prop(self, test, env):
        """a test inside an expression (no narrowing, no exceptions): a decidable Lean proposition"""
        if isinstance(test, ast.BoolOp):
            sym = ' ∧ ' if isinstance(test.op, ast.And) else ' ∨ '
            return '(' + sym.join(self.prop(v, env) for v in test.values) + ')'
        if isinstance(test, ast.UnaryOp) and isinstance(test.op, ast.Not):
            return f'(¬ {self.prop(test.operand, env)})'
        if isinstance(test, ast.Compare):
            return self.compare(test, env)
        if isinstance(test, ast.Name) and self.lookup(test.id, env)[1] == BOOL:
            return f'({self.lookup(test.id, env)[0]} = true)'
        raise TranslationError(f'test outside subset: {src_of(test)}')

    def compare(self, test, env):
        if len(test.ops) != 1:
            raise TranslationError(f'chained comparison: {src_of(test)}')
        sym = {ast.Lt: '<', ast.LtE: '≤', ast.Gt: '>', ast.GtE: '≥', ast.Eq: '=', ast.NotEq: '≠'}.get(type(test.ops[0]))
        if sym is None:
            raise TranslationError(f'comparison outside subset: {src_of(test)}')
        return f'{self.int_expr(test.left, env)} {sym} {self.int_expr(test.comparators[0], env)}'

    # ------------------------------------------------------------------ statement-level tests (short-circuit, narrowing)
    def cond(self, test, env, kt, kf):
        if isinstance(test, ast.BoolOp):
            vals = test.values

            def go(i, env_i):
                if i == len(vals) - 1:
                    return self.cond(vals[i], env_i, kt, kf)
                if isinstance(test.op, ast.Or):
                    return self.cond(vals[i], env_i, kt, lambda ef: go(i + 1, ef))
                return self.cond(vals[i], env_i, lambda et: go(i + 1, et), kf)
            return go(0, env)
        if isinstance(test, ast.UnaryOp) and isinstance(test.op, ast.Not):
            return self.cond(test.operand, env, kf, kt)
        if isinstance(test, ast.Compare):
            return f'if {self.compare(test, env)} then\n{ind(kt(env.copy()))}\nelse\n{ind(kf(env.copy()))}'
        if isinstance(test, ast.Name):
            t, ty = self.lookup(test.id, env)
            if ty == BOOL:
                if t == 'true':
                    return kt(env)
                if t == 'false':
                    return kf(env)
                return f'if {t} = true then\n{ind(kt(env.copy()))}\nelse\n{ind(kf(env.copy()))}'
            if ty == CALLOPT:
                f = self.fresh(test.id)
                et = env.copy()
                et.vars[test.id] = (f, CALL)
                return f'match {t} with\n| none =>\n{ind(kf(env.copy()))}\n| some {f} =>\n{ind(kt(et))}'
            if ty == CALL:
                return kt(env)
            raise TranslationError(f'truthiness of {test.id} ({ty}) outside subset')
        if isinstance(test, ast.Call) and isinstance(test.func, ast.Name) and not test.keywords and len(test.args) == 1 \
                and isinstance(test.args[0], ast.Name):
            f, fty = self.lookup(test.func.id, env)
            if fty == CALLOPT:
                raise TranslationError(f'{src_of(test)}: {test.func.id} may be None here')
            if fty != CALL:
                raise TranslationError(f'call outside subset: {src_of(test)}')
            w, wty = self.lookup(test.args[0].id, env)
            if wty != WIN:
                raise TranslationError(f'{src_of(test)}: the argument is {wty}, not an extracted window')
            return f'if {f} {w}.1 {w}.2 = true then\n{ind(kt(env.copy()))}\nelse\n{ind(kf(env.copy()))}'
        raise TranslationError(f'test outside subset: {src_of(test)}')

    # ------------------------------------------------------------------ data-only statements
    def data_test(self, t, env):
        """True iff `t` is a test that only routes data"""
        if isinstance(t, ast.BoolOp):
            return all(self.data_test(v, env) for v in t.values)
        if isinstance(t, ast.UnaryOp) and isinstance(t.op, ast.Not):
            return self.data_test(t.operand, env)
        if isinstance(t, ast.Name):
            return env.vars.get(t.id, (None, None))[1] == DATA
        if isinstance(t, ast.Compare) and len(t.ops) == 1 and isinstance(t.left, ast.Name) \
                and env.vars.get(t.left.id, (None, None))[1] == DATA and isinstance(t.comparators[0], ast.Constant):
            c = t.comparators[0].value
            if isinstance(t.ops[0], (ast.Eq, ast.NotEq)) and isinstance(c, int) and not isinstance(c, bool):
                return True
            if isinstance(t.ops[0], (ast.Is, ast.IsNot)) and c is None:
                return True
            return False
        if isinstance(t, ast.Call) and isinstance(t.func, ast.Name) and t.func.id == 'isinstance' and not t.keywords \
                and len(t.args) == 2 and isinstance(t.args[0], ast.Name) and t.args[0].id == 'source' \
                and isinstance(t.args[1], ast.Name) and t.args[1].id not in env.vars:
            return True
        return False

    def source_chain(self, e):
        """attribute chain on `source`: returns the list of attribute names or None"""
        attrs = []
        while isinstance(e, ast.Attribute):
            attrs.append(e.attr)
            e = e.value
        if isinstance(e, ast.Name) and e.id == 'source' and attrs:
            return attrs[::-1]
        return None

    def data_value(self, e, env):
        """kind of a data expression: DATA, LABELS, WIN, WINMAPPED - or None when `e` is not one"""
        if isinstance(e, ast.Constant) and e.value is None:
            return DATA
        ch = self.source_chain(e)
        if ch is not None:
            if ch in (['_index'], ['_columns']):
                return LABELS
            if any(a in ('_index', '_columns', 'index', 'columns', 'iloc', 'loc') for a in ch):
                return None
            return DATA
        if isinstance(e, ast.IfExp) and self.data_test(e.test, env):
            a, b = self.data_value(e.body, env), self.data_value(e.orelse, env)
            return a if (a == b and a in (DATA, LABELS)) else None
        if self.is_extraction(e, env):
            return WIN
        if isinstance(e, ast.Call) and isinstance(e.func, ast.Name) and e.func.id == 'window_func' and not e.keywords \
                and len(e.args) == 1 and isinstance(e.args[0], ast.Name) and e.args[0].id == 'window' \
                and env.vars.get('window_func', (None, None))[1] == DATA:
            return WINMAPPED
        return None

    def is_extraction(self, e, env):
        """`<data name>[key]` / `source._extract*(…key…)`: the key, once, otherwise only NULL_SLICE"""
        def is_key(x):
            return isinstance(x, ast.Name) and x.id == 'key'

        def is_null(x):
            return isinstance(x, ast.Name) and x.id == 'NULL_SLICE' and 'NULL_SLICE' not in env.vars
        if isinstance(e, ast.Subscript) and isinstance(e.value, ast.Name) and env.vars.get(e.value.id, (None, None))[1] == DATA \
                and is_key(e.slice):
            return True
        if isinstance(e, ast.Call) and isinstance(e.func, ast.Attribute) and isinstance(e.func.value, ast.Name) \
                and e.func.value.id == 'source' and e.func.attr.startswith('_extract'):
            items = list(e.args) + [kw.value for kw in e.keywords]
            if any(kw.arg not in ('row_key', 'column_key') for kw in e.keywords):
                return False
            if sum(1 for x in items if is_key(x)) == 1 and all(is_key(x) or is_null(x) for x in items):
                return True
        return False

    def data_stmt(self, s, env):
        """bindings {name: kind} a data-only statement makes as (definite, maybe), or None when `s` has not the shape of
        one.  A data-only `if` holding anything else raises."""
        if isinstance(s, ast.Expr) and isinstance(s.value, ast.Constant) and isinstance(s.value.value, str):
            return {}, {}
        if isinstance(s, ast.ImportFrom) and s.level == 0 and (s.module or '').startswith('static_frame.core.') \
                and all(a.asname is None and a.name not in env.vars for a in s.names):
            return {}, {}
        if isinstance(s, ast.Assert) and s.msg is None and self.data_test(s.test, env) and isinstance(s.test, ast.Call):
            return {}, {}
        target = value = None
        if isinstance(s, ast.Assign) and len(s.targets) == 1 and isinstance(s.targets[0], ast.Name):
            target, value = s.targets[0].id, s.value
        elif isinstance(s, ast.AnnAssign) and isinstance(s.target, ast.Name) and s.value is not None and s.simple:
            target, value = s.target.id, s.value
        if target is not None:
            kind = self.data_value(value, env)
            if kind is None:
                return None
            if kind in (WIN, WINMAPPED) and target != 'window':
                raise TranslationError(f'{src_of(s)}: a window is assigned to {target}')
            if kind == WINMAPPED and env.vars.get('window', (None, None))[1] not in (WIN, WINMAPPED):
                raise TranslationError(f'{src_of(s)}: window may be unbound')
            if kind == WIN and env.vars.get('key', (None, None))[1] != SLICE2:
                raise TranslationError(f'{src_of(s)}: key is not a slice built by this function')
            cur = env.vars.get(target, (None, None))[1]
            if cur is not None and not (cur == kind or {cur, kind} == {WIN, WINMAPPED}):
                raise TranslationError(f'{src_of(s)}: {target} is {cur}, assigned {kind}')
            if target in RESERVED or any(target == p for p, _, _ in PARAMS):
                raise TranslationError(f'{src_of(s)}: assignment to {target}')
            return {target: kind}, {}
        if isinstance(s, ast.If) and self.data_test(s.test, env):
            arms = []
            for body in (s.body, s.orelse):
                e2 = env.copy()
                definite, maybe = {}, {}
                for st in body:
                    r = self.data_stmt(st, e2)
                    if r is None:
                        raise TranslationError(f'inside the data-only `if {src_of(s.test, 50)}`: statement outside subset: {src_of(st)}')
                    d, m = r
                    for name, kind in d.items():
                        definite[name] = kind
                        e2.vars[name] = (e2.vars.get(name, (None, None))[0], kind)
                    for name, kind in m.items():
                        maybe[name] = self.join(maybe.get(name, kind), kind, name)
                arms.append((definite, maybe))
            (d1, m1), (d2, m2) = arms
            definite, maybe = {}, {}
            for name in d1:
                if name in d2:
                    definite[name] = self.join(d1[name], d2[name], name)
            for dd in (d1, d2, m1, m2):
                for name, kind in dd.items():
                    if name not in definite:
                        maybe[name] = self.join(maybe.get(name, kind), kind, name)
            return definite, maybe
        return None

    @staticmethod
    def join(a, b, name):
        if a == b:
            return a
        if {a, b} == {WIN, WINMAPPED}:
            return WINMAPPED
        raise TranslationError(f'{name} is {a} on one path and {b} on another')

    def apply_data(self, s, env, bindings):
        """environment after a data-only statement; returns (lean text to emit before the rest, env)"""
        definite, maybe = bindings
        e2 = env.copy()
        text = ''
        for name, kind in definite.items():
            if kind == WIN:
                a, b = e2.vars['key'][0]
                ln = self.fresh(name)
                text += f'let {ln} := WindowSem.sliceWindow {a} {b} n\n'
                e2.vars[name] = (ln, WIN)
            elif kind == WINMAPPED:
                e2.vars[name] = (e2.vars[name][0], WINMAPPED)
            else:
                e2.vars[name] = (None, kind)
        for name, kind in maybe.items():
            if name in e2.vars:
                cur = e2.vars[name][1]
                if kind == WIN:      # extracted on some paths only: the position of the window is no longer known
                    raise TranslationError(f'{src_of(s)}: window is extracted on some paths only')
                e2.vars[name] = (e2.vars[name][0], self.join(cur, kind, name))
            # not bound before and bound on some paths only: stays unbound (reading it is rejected)
        self.data_stmts[(s.lineno, s.col_offset)] = ast.unparse(s) if not isinstance(s, ast.Expr) else '<docstring>'
        return text, e2

    # ------------------------------------------------------------------ statements
    def block(self, stmts, env, k, handlers, where):
        """`k(env)`: falling off the end; `handlers`: ((exception class, fn(env) -> text), ...) innermost last;
        `where`: 'prelude' | 'loop'"""
        if not stmts:
            return k(env)
        s, rest = stmts[0], stmts[1:]

        def cont(e):
            return self.block(rest, e, k, handlers, where)

        d = self.data_stmt(s, env)
        if d is not None:
            text, e2 = self.apply_data(s, env, d)
            return text + cont(e2)

        if isinstance(s, ast.AnnAssign) and isinstance(s.target, ast.Name) and s.value is not None and s.simple:
            if src_of(s.annotation).replace('tp.', '').replace('typing.', '') not in ('int', 'bool'):
                raise TranslationError(f'annotation outside subset: {src_of(s)}')
            s = ast.Assign(targets=[ast.Name(id=s.target.id, ctx=ast.Store())], value=s.value)
        if isinstance(s, ast.Assign) and len(s.targets) == 1 and isinstance(s.targets[0], ast.Name):
            return self.assign(s.targets[0].id, s.value, s, env, cont, handlers, where)
        if isinstance(s, ast.AugAssign) and isinstance(s.target, ast.Name):
            sym = {ast.Add: '+', ast.Sub: '-', ast.Mult: '*'}.get(type(s.op))
            if sym is None:
                raise TranslationError(f'operator outside subset: {src_of(s)}')
            name = s.target.id
            cur, ty = self.lookup(name, env)
            if ty != INT:
                raise TranslationError(f'{src_of(s)}: {name} is {ty}')
            self.check_target(name, INT, env, s)
            ln = self.fresh(name)
            e2 = env.copy()
            e2.vars[name] = (ln, INT)
            return f'let {ln} := ({cur} {sym} {self.int_expr(s.value, env)})\n' + cont(e2)
        if isinstance(s, ast.If):
            return self.cond(s.test, env,
                             lambda et: self.block(list(s.body) + rest, et, k, handlers, where),
                             lambda ef: self.block(list(s.orelse) + rest, ef, k, handlers, where))
        if isinstance(s, ast.Raise):
            if s.cause is not None or s.exc is None:
                raise TranslationError(f'raise outside subset: {src_of(s)}')
            exc = s.exc
            if isinstance(exc, ast.Call) and isinstance(exc.func, ast.Name) and not exc.keywords \
                    and all(isinstance(a, ast.Constant) and isinstance(a.value, str) for a in exc.args):
                exc = exc.func
            if not isinstance(exc, ast.Name) or exc.id in env.vars:
                raise TranslationError(f'raise outside subset: {src_of(s)}')
            return self.raise_(exc.id, env, handlers, where, s)
        if isinstance(s, ast.Try):
            if len(s.handlers) != 1 or s.orelse or s.finalbody or s.handlers[0].name is not None \
                    or not isinstance(s.handlers[0].type, ast.Name) or s.handlers[0].type.id not in EXC:
                raise TranslationError(f'try statement outside subset: {src_of(s)} ... except {src_of(s.handlers[0].type) if s.handlers and s.handlers[0].type else ""}')
            h = s.handlers[0]

            def handler(e_at_raise):
                return self.block(list(h.body), e_at_raise, cont, handlers, where)
            return self.block(list(s.body), env, cont, handlers + ((h.type.id, handler),), where)
        if isinstance(s, ast.Expr) and isinstance(s.value, ast.Yield):
            v = s.value.value
            if not (isinstance(v, ast.Tuple) and len(v.elts) == 2 and all(isinstance(x, ast.Name) for x in v.elts)):
                raise TranslationError(f'yield outside subset: {src_of(s)}')
            if where != 'loop':
                raise TranslationError(f'yield outside the loop: {src_of(s)}')
            lab, lty = self.lookup(v.elts[0].id, env)
            w, wty = self.lookup(v.elts[1].id, env)
            if lty != LABEL or wty not in (WIN, WINMAPPED):
                raise TranslationError(f'{src_of(s)}: yields ({lty}, {wty}), expected (label, window)')
            e2 = env.copy()
            e2.out = self.fresh('out')
            return f'let {e2.out} := {env.out} ++ [({lab}, {w}.1, {w}.2)]\n' + cont(e2)
        if isinstance(s, ast.Break):
            if where != 'loop':
                raise TranslationError('break outside the loop')
            return self.kbreak(env)
        if isinstance(s, ast.While):
            if where != 'prelude' or rest:
                raise TranslationError('a loop that is not the last top-level statement')
            if not (isinstance(s.test, ast.Constant) and s.test.value is True) or s.orelse:
                raise TranslationError(f'loop outside subset: while {src_of(s.test)}')
            return self.enter_loop(s, env)
        raise TranslationError(f'statement outside subset: {src_of(s)}')

    def check_target(self, name, ty, env, s):
        if name in RESERVED:
            raise TranslationError(f'{src_of(s)}: local named {name}')
        role = {p: r for p, _, r in PARAMS}.get(name)
        if role is not None and role != ty:
            raise TranslationError(f'{src_of(s)}: assignment of {ty} to the parameter {name} ({role})')
        cur = env.vars.get(name, (None, None))[1]
        if cur is not None and cur != ty:
            raise TranslationError(f'{src_of(s)}: {name} is {cur}, assigned {ty}')

    def assign(self, name, value, s, env, cont, handlers, where):
        e2 = env.copy()
        if isinstance(value, ast.Constant) and isinstance(value.value, bool):
            self.check_target(name, BOOL, env, s)
            e2.vars[name] = ('true' if value.value else 'false', BOOL)       # tracked as a constant (decided per path)
            return cont(e2)
        if isinstance(value, ast.Call) and isinstance(value.func, ast.Name) and value.func.id == 'slice' and 'slice' not in env.vars:
            if len(value.args) != 2 or value.keywords or any(isinstance(a, ast.Starred) for a in value.args):
                raise TranslationError(f'{src_of(s)}: only slice(start, stop) of two integers')
            self.check_target(name, SLICE2, env, s)
            if name != 'key':
                raise TranslationError(f'{src_of(s)}: the slice is not named key')
            e2.vars[name] = ((self.int_expr(value.args[0], env), self.int_expr(value.args[1], env)), SLICE2)
            # the window extracted from an earlier key is still the old one: nothing to invalidate
            return cont(e2)
        if (isinstance(value, ast.Subscript) and isinstance(value.value, ast.Attribute) and value.value.attr == 'iloc'
                and isinstance(value.value.value, ast.Name) and env.vars.get(value.value.value.id, (None, None))[1] == LABELS):
            self.check_target(name, LABEL, env, s)
            i = self.int_expr(value.slice, env)
            ln = self.fresh(name)
            e2.vars[name] = (ln, LABEL)
            return (f'match WindowSem.ilocPos n {i} with\n| none =>\n{ind(self.raise_("IndexError", env, handlers, where, s))}\n'
                    f'| some {ln} =>\n{ind(cont(e2))}')
        t = self.int_expr(value, env)
        self.check_target(name, INT, env, s)
        ln = self.fresh(name)
        e2.vars[name] = (ln, INT)
        return f'let {ln} := {t}\n' + cont(e2)

    def raise_(self, exc, env, handlers, where, s):
        for cls, h in reversed(handlers):
            if cls == exc:
                return h(env.copy())
            # (a handler for another class does not catch it: classes are matched by name, the subset has no hierarchy)
        if exc not in EXC:
            raise TranslationError(f'exception class outside subset: {src_of(s)}')
        if where != 'prelude':
            raise TranslationError(f'{exc} would escape the loop body: {src_of(s)}')
        return f'.error .{EXC[exc]}  -- {exc}'

    # ------------------------------------------------------------------ the loop
    def enter_loop(self, loop, env):
        """in the prelude, on one path: `.ok (values of the loop-entry locals)`; the body is translated once (translate_loop)"""
        params = {p for p, _ in SK_PARAMS}
        entry = [(name, ty) for name, (t, ty) in env.vars.items() if ty in (INT, BOOL) and not (name in params and t == name)]
        data = {name: ty for name, (t, ty) in env.vars.items() if ty in (DATA, LABELS)}
        other = {name: ty for name, (t, ty) in env.vars.items() if ty not in (INT, BOOL, DATA, LABELS, CALLOPT)}
        if other:
            raise TranslationError(f'bound at loop entry: {other} (outside subset)')
        entry.sort(key=lambda x: EXPECT_ENTRY.index(x[0]) if x[0] in EXPECT_ENTRY else len(EXPECT_ENTRY))
        if [name for name, _ in entry] != EXPECT_ENTRY or any(ty != INT for _, ty in entry):
            raise TranslationError(f'locals at loop entry {entry} differ from expected {EXPECT_ENTRY} (the bridge lemmas are stated for these)')
        if self.entry is not None and self.entry != (entry, data):
            raise TranslationError(f'the paths into the loop bind different names: {self.entry} vs {(entry, data)}')
        self.entry, self.loop_node = (entry, data), loop
        return '.ok (' + ', '.join(env.vars[name][0] for name, _ in entry) + ')'

    def translate_loop(self):
        entry, data = self.entry
        env = Env()
        for p, _, role in PARAMS:
            env.vars[p] = (p if role != DATA else None, role)
        for name, ty in data.items():
            env.vars[name] = (None, ty)
        for name, ty in entry:
            env.vars[name] = (name, ty)
        assigned = []
        for node in sorted((x for x in ast.walk(self.loop_node) if isinstance(x, (ast.Assign, ast.AugAssign, ast.AnnAssign))),
                           key=lambda x: (x.lineno, x.col_offset)):
            for t in (node.targets if isinstance(node, ast.Assign) else [node.target]):
                if not isinstance(t, ast.Name):
                    raise TranslationError(f'assignment target outside subset: {src_of(node)}')
                if t.id not in assigned:
                    assigned.append(t.id)
        for node in ast.walk(self.loop_node):
            if isinstance(node, (ast.NamedExpr, ast.For, ast.With, ast.Delete, ast.Global, ast.Nonlocal, ast.Lambda, ast.FunctionDef,
                                 ast.ListComp, ast.GeneratorExp, ast.Return, ast.Continue, ast.YieldFrom, ast.Await)) \
                    or (isinstance(node, ast.While) and node is not self.loop_node):
                raise TranslationError(f'statement outside subset: {src_of(node)}')
        state = [name for name in assigned if env.vars.get(name, (None, None))[1] in (INT, BOOL)]
        if sorted(state) != sorted(EXPECT_STATE):
            raise TranslationError(f'loop-carried variables {state} differ from expected {EXPECT_STATE} (the bridge lemmas are stated for these)')
        state = list(EXPECT_STATE)          # (reported in this order whatever the order of the assignments)
        self.state = state

        # the pass is cut in two at a top-level statement boundary: the longest suffix of the body that is pure integer
        # bookkeeping (assignments, `if`, `break`; reads only what is bound at the start of the pass or assigned in the suffix)
        # is the UPDATE part, what precedes it the YIELD part.  The cut loses nothing as long as the yield part neither
        # assigns a loop-carried variable nor breaks (checked below): pass = (yield part; update part).
        body = list(self.loop_node.body)
        start_names = {name for name, (t, ty) in env.vars.items() if ty in (INT, BOOL) and t is not None}
        cut = len(body)
        for i in range(len(body) + 1):
            if self.is_update_part(body[i:], set(start_names)):
                cut = i
                break
        head, tail = body[:cut], body[cut:]
        if not tail:
            raise TranslationError('the loop body does not end with an integer update / exit part (outside subset)')

        def no_break(e):
            raise TranslationError('break inside the part of the loop body that yields (outside subset)')

        def yielded(e):
            for name in state:
                if e.vars[name][0] != name:
                    raise TranslationError(f'{name} is assigned in the part of the loop body that yields (outside subset)')
            return e.out
        self.kbreak = no_break
        text_yield = self.block(head, env.copy(), yielded, (), 'loop')

        def result(brk):
            def k(e):
                if e.out != '[]':
                    raise TranslationError('yield in the update part')
                return '((' + ', '.join(e.vars[name][0] for name in state) + f'), {brk})'
            return k
        self.kbreak = result('true')
        text_update = self.block(tail, env.copy(), result('false'), (), 'loop')
        return text_yield, text_update

    def is_update_part(self, stmts, known):
        """pure integer bookkeeping: assignments / augmented assignments of integer expressions over `known` names, `if`, `break`"""
        def reads_ok(e):
            return all(isinstance(x, (ast.Name, ast.Constant, ast.BinOp, ast.UnaryOp, ast.BoolOp, ast.Compare, ast.IfExp, ast.operator,
                                      ast.unaryop, ast.boolop, ast.cmpop, ast.expr_context)) for x in ast.walk(e)) \
                and all(x.id in known for x in ast.walk(e) if isinstance(x, ast.Name))

        def go(stmts, known):
            for st in stmts:
                if isinstance(st, ast.Assign) and len(st.targets) == 1 and isinstance(st.targets[0], ast.Name) and reads_ok(st.value):
                    known.add(st.targets[0].id)
                elif isinstance(st, ast.AugAssign) and isinstance(st.target, ast.Name) and st.target.id in known and reads_ok(st.value):
                    pass
                elif isinstance(st, ast.If) and reads_ok(st.test):
                    k1, k2 = set(known), set(known)
                    if not (go(st.body, k1) and go(st.orelse, k2)):
                        return False
                    known |= k1 & k2
                elif isinstance(st, ast.Break):
                    pass
                else:
                    return False
            return True
        return go(stmts, known)


def find_func(tree):
    for node in tree.body:
        if isinstance(node, ast.FunctionDef) and node.name == NAME:
            return node
    raise TranslationError(f'function {NAME} not found')


def check_signature(fn):
    """the keyword-only parameters, their annotations; returns {name: default node}"""
    a = fn.args
    if a.args or a.posonlyargs or a.vararg or a.kwarg or fn.decorator_list:
        raise TranslationError('parameter list outside subset (keyword-only parameters expected)')
    got = [x.arg for x in a.kwonlyargs]
    if got != [p for p, _, _ in PARAMS]:
        raise TranslationError(f'parameters {got} differ from expected {[p for p, _, _ in PARAMS]}')
    for x, (p, ann, _) in zip(a.kwonlyargs, PARAMS):
        if ann is not None:
            txt = ast.unparse(x.annotation).replace('tp.', '').replace('typing.', '').replace(' ', '') if x.annotation else None
            if txt != ann:
                raise TranslationError(f'parameter {p}: annotation {txt}, expected {ann}')
        if p in RESERVED:
            raise TranslationError(f'parameter named {p}')
    return {x.arg: d for x, d in zip(a.kwonlyargs, a.kw_defaults)}


def sig(names_types):
    return ' '.join(f'({n} : {LEAN_TY[t]})' for n, t in names_types)


def signatures():
    state = [(s, INT) for s in EXPECT_STATE]
    consts = [(p, r) for p, r in SK_PARAMS if p not in EXPECT_STATE]
    entry_consts = [(e, INT) for e in EXPECT_ENTRY if e not in EXPECT_STATE]
    tuple_ty = ' × '.join(['Int'] * len(EXPECT_ENTRY))
    state_ty = ' × '.join(['Int'] * len(EXPECT_STATE))
    return {
        'init': f'(n : Nat) {sig(SK_PARAMS)} : Except Err ({tuple_ty})',
        'yield': f'(n : Nat) {sig(consts)} {sig(entry_consts)} {sig(state)} : List ({WIN_TY})',
        'update': f'{sig([(p, r) for p, r in consts if r == INT])} {sig(entry_consts)} {sig(state)} : ({state_ty}) × Bool',
        'step': f'(n : Nat) {sig(consts)} {sig(entry_consts)} {sig(state)} : List ({WIN_TY}) × ({state_ty}) × Bool',
        'loop': f'(n : Nat) {sig(consts)} {sig(entry_consts)} : Nat → {state_ty} → Option (List ({WIN_TY}))',
        'main': f'(fuel n : Nat) {sig(SK_PARAMS)} : Except Err (List ({WIN_TY}))',
        'defaults': 'Int × Bool × Int × Int × Int × Bool',
        'consts': consts, 'entry_consts': entry_consts, 'state_ty': state_ty,
    }


def translate(src):
    """Lean text of the definitions (raises TranslationError)"""
    fn = find_func(ast.parse(src))
    defaults = check_signature(fn)
    for node in ast.walk(fn):
        if isinstance(node, (ast.AsyncFunctionDef, ast.ClassDef)) or (isinstance(node, ast.FunctionDef) and node is not fn):
            raise TranslationError(f'statement outside subset: {src_of(node)}')
    tr = Translator()
    env = Env()
    for p, _, role in PARAMS:
        env.vars[p] = (p if role != DATA else None, role)

    def fall_off(e):
        raise TranslationError('the function ends without entering the loop (outside subset)')
    init = tr.block(list(fn.body), env, fall_off, (), 'prelude')
    if tr.entry is None:
        raise TranslationError('no `while True:` loop reached')
    text_yield, text_update = tr.translate_loop()
    S = signatures()

    # defaults of the skeleton parameters
    dvals = []
    for p in EXPECT_DEFAULTS:
        d = defaults.get(p)
        role = dict(SK_PARAMS)[p]
        if d is None:
            raise TranslationError(f'parameter {p} has no default')
        if role == INT:
            dvals.append(tr.int_expr(d, Env()))
        elif isinstance(d, ast.Constant) and isinstance(d.value, bool):
            dvals.append('true' if d.value else 'false')
        else:
            raise TranslationError(f'default of {p} outside subset: {src_of(d)}')
    d = defaults.get('window_valid')
    dvals.append('true' if (isinstance(d, ast.Constant) and d.value is None) else 'false')
    if defaults.get('size') is not None:
        raise TranslationError('size has a default')
    data_defaults = ', '.join(f'{p}={src_of(defaults[p]) if defaults.get(p) is not None else "<required>"}' for p, _, r in PARAMS if r == DATA)

    cargs = ' '.join(p for p, _ in S['consts'] + S['entry_consts'])
    uargs = ' '.join(p for p, r in S['consts'] + S['entry_consts'] if r == INT)
    sargs = ' '.join(EXPECT_STATE)
    out = []
    out.append('/- data-only statements recognised (abstracted: the window is `sliceWindow key n`, the labels have length `n`):')
    for _, text in sorted(tr.data_stmts.items()):
        out.append(ind(text.replace('-/', '- /').replace('/-', '/ -'), 5))
    out.append(f'   defaults of the data parameters: {data_defaults} -/')
    out.append('')
    out.append(f'/-- defaults of ({", ".join(EXPECT_DEFAULTS)}) and "the default of window_valid is None" -/')
    out.append(f'def axis_window_items_defaults : {S["defaults"]} :=\n  (' + ', '.join(dvals) + ')\n')
    out.append('/-- the argument guards and the prelude: the exception raised, or the values of (' + ', '.join(EXPECT_ENTRY) + ') at loop entry -/')
    out.append(f'def axis_window_items_init {S["init"]} :=\n{ind(init)}\n')
    out.append('/-- one pass through the body of `while True:`, first part (up to the last `yield`): the values yielded in this pass -/')
    out.append(f'def axis_window_items_yield {S["yield"]} :=\n{ind(text_yield)}\n')
    out.append('/-- … second part (the state update and the exit test): ((' + ', '.join(EXPECT_STATE) + ') afterwards, `break` reached) -/')
    out.append(f'def axis_window_items_update {S["update"]} :=\n{ind(text_update)}\n')
    out.append(LOOP_TEMPLATE.format(loop_sig=S['loop'], main_sig=S['main'], step_sig=S['step'], cargs=cargs, uargs=uargs, sargs=sargs,
                                    spat=', '.join(EXPECT_STATE), epat=', '.join(EXPECT_ENTRY),
                                    skargs=' '.join(p for p, _ in SK_PARAMS)))
    return '\n'.join(out)


LOOP_TEMPLATE = '''/-- one pass through the body of `while True:`: (values yielded, ({spat}) afterwards, `break` reached) -/
def axis_window_items_step {step_sig} :=
  (axis_window_items_yield n {cargs} {sargs},
   (axis_window_items_update {uargs} {sargs}).1,
   (axis_window_items_update {uargs} {sargs}).2)

/-- `while True:` with fuel; `none` = the fuel ran out before `break` was reached -/
def axis_window_items_loop {loop_sig}
  | 0, _ => none
  | fuel + 1, ({spat}) =>
    let r_ := axis_window_items_step n {cargs} {sargs}
    if r_.2.2 = true then some r_.1
    else (axis_window_items_loop n {cargs} fuel r_.2.1).map (fun rest_ => r_.1 ++ rest_)

/-- `list(axis_window_items(...))` on an axis of `n` entries; `.error .other` = the fuel ran out (not a Python outcome) -/
def axis_window_items {main_sig} :=
  match axis_window_items_init n {skargs} with
  | .error e_ => .error e_
  | .ok ({epat}) =>
    match axis_window_items_loop n {cargs} fuel ({spat}) with
    | none => .error .other
    | some ws_ => .ok ws_
'''


def stubs(ex):
    S = signatures()
    msg = str(ex).replace('-/', '- /')
    return (f'-- TRANSLATION FAILED: {msg}\n'
            f'def axis_window_items_defaults : {S["defaults"]} := (0, false, 0, 0, 0, false)\n'
            f'def axis_window_items_init {S["init"]} := .error .other\n'
            f'def axis_window_items_yield {S["yield"]} := []\n'
            f'def axis_window_items_update {S["update"]} := ((0, 0, 0), true)\n'
            f'def axis_window_items_step {S["step"]} := ([], (0, 0, 0), true)\n'
            f'def axis_window_items_loop {S["loop"]} := fun _ _ => none\n'
            f'def axis_window_items {S["main"]} := .error .other\n')


def generate(repo):
    """Returns (text, list of error strings)."""
    head = ['-- GENERATED by tools/py2lean_window.py from the current static_frame/core/container_util.py; do not edit.',
            'import SFModel.WindowSem', '', 'set_option linter.unusedVariables false', '', 'namespace SF.Gen.Window', 'open SF', '',
            f'-- {PATH} :: {NAME}']
    errors = []
    try:
        src = open(os.path.join(repo, PATH)).read()
        body = translate(src)
    except (TranslationError, SyntaxError, OSError, RecursionError) as ex:
        errors.append(f'{NAME}: {ex}')
        body = stubs(ex)
    return '\n'.join(head) + '\n' + body + '\nend SF.Gen.Window\n', errors


def main():
    ap = argparse.ArgumentParser()
    ap.add_argument('--repo', default='/repo')
    ap.add_argument('--out', default=os.path.join(os.path.dirname(os.path.dirname(os.path.abspath(__file__))), 'lean', 'SFModel', 'Gen'))
    ap.add_argument('--check', action='store_true', help='do not write: rc 1 on a translation error or if the file on disk differs')
    ap.add_argument('--stdout', action='store_true', help='print the translation instead of writing it')
    a = ap.parse_args()
    text, errors = generate(a.repo)
    if a.stdout:
        sys.stdout.write(text)
        for e in errors:
            print('py2lean_window: TRANSLATION-ERROR', e, file=sys.stderr)
        return 1 if errors else 0
    os.makedirs(a.out, exist_ok=True)
    target = os.path.join(a.out, 'Window.lean')
    old = open(target).read() if os.path.exists(target) else None
    if a.check:
        for e in errors:
            print('py2lean_window: TRANSLATION-ERROR', e)
        print('py2lean_window: up to date' if old == text else f'py2lean_window: {target} differs from the translation of the current source')
        return 1 if errors or old != text else 0
    if old != text:
        with open(target, 'w') as f:
            f.write(text)
        print(f'py2lean_window: wrote {target}')
    else:
        print('py2lean_window: unchanged')
    for e in errors:
        print('py2lean_window: TRANSLATION-ERROR', e)
    return 1 if errors else 0


if __name__ == '__main__':
    sys.exit(main())
