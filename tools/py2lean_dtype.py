#!/venv/bin/python
"""py2lean_dtype - translate the branch skeleton of static-frame's dtype decision functions
(util.resolve_dtype, util.dtype_kind_to_na, util.dtype_to_fill_value) from the *current* source into
Lean 4 (lean/SFModel/Gen/DType.lean).  The bridge lemmas in lean/SFModel/BridgeDType.lean prove the
generated definitions equal the hand-written mirrored ones (`SF.resolveE`, `SF.kindToNa`,
`SF.dtypeToFillValue`) that the C07 theorems are about; a source change that alters a branch breaks a
proof obligation, syntax outside the subset is a TRANSLATION-ERROR (the generated stub then makes the
bridge lemma fail).

Subset (trusted): a function body made of
  * `if <test>: return <value>`            (no else; falls through to the next statement)
  * `<name> = <test>`                      (a Boolean local)
  * `try: return np.result_type(a, b)` / `except TypeError: return <value>`
  * a final `return <value>`
  * `if not isinstance(dtype, np.dtype): dtype = np.dtype(dtype)`   (normalisation, skipped) and
    `kind = dtype.kind`, `raise NotImplementedError(...)` as the last statement
tests: `a == b`, `x.kind == K`, `x.kind in KS`, `kind in KS`, `x.type is np.bool_`, `and` / `or` / names of
Boolean locals; K / KS are module-level constants of util.py (strings or tuples of strings, resolved
from the source, so that editing a constant changes the translation);
values: a dtype parameter, DTYPE_OBJECT, `np.result_type(dt1, dt2)`, and for the NA / fill-value
functions the literals np.nan, NAT, None, 0, False, '', EMPTY_TIMEDELTA.

usage: py2lean_dtype.py [--repo /repo] [--out lean/SFModel/Gen]
"""
from __future__ import annotations

import argparse
import ast
import os
import sys

KINDS = {'b': 'Kind.b', 'i': 'Kind.i', 'u': 'Kind.u', 'f': 'Kind.f', 'c': 'Kind.c', 'U': 'Kind.U', 'S': 'Kind.S',
         'M': 'Kind.M', 'm': 'Kind.m', 'O': 'Kind.O'}


class TranslationError(Exception):
    pass


class Consts:
    """module-level constants of util.py: strings, tuples of strings / other constants"""

    def __init__(self, tree):
        self.raw = {}
        for n in tree.body:
            if isinstance(n, ast.Assign) and len(n.targets) == 1 and isinstance(n.targets[0], ast.Name):
                self.raw[n.targets[0].id] = n.value

    def kinds(self, node):
        """a constant denoting a collection of kind characters -> list of Lean Kind terms"""
        if isinstance(node, ast.Name):
            if node.id not in self.raw:
                raise TranslationError(f'unknown constant {node.id}')
            return self.kinds(self.raw[node.id])
        if isinstance(node, ast.Constant) and isinstance(node.value, str):
            return [self.kind_char(ch) for ch in node.value]
        if isinstance(node, ast.Tuple):
            out = []
            for e in node.elts:
                out += self.kinds(e)
            return out
        raise TranslationError(f'kind collection outside subset: {ast.unparse(node)}')

    def kind(self, node):
        ks = self.kinds(node)
        if len(ks) != 1:
            raise TranslationError(f'single kind expected: {ast.unparse(node)}')
        return ks[0]

    @staticmethod
    def kind_char(ch):
        if ch not in KINDS:
            raise TranslationError(f'unknown dtype kind {ch!r}')
        return KINDS[ch]


class Fn:
    def __init__(self, consts, params, kind_var=None, value_mode='dtype'):
        self.c = consts
        self.params = params          # python name -> lean term (DType or Kind)
        self.kind_var = kind_var      # name of a local holding a Kind
        self.bools = {}               # Boolean locals
        self.value_mode = value_mode

    # ---- tests -> Lean Bool terms
    def kind_of(self, node):
        """expression denoting a kind -> Lean term"""
        if isinstance(node, ast.Attribute) and node.attr == 'kind' and isinstance(node.value, ast.Name) and node.value.id in self.params:
            return f'{self.params[node.value.id]}.kind'
        if isinstance(node, ast.Name) and node.id == self.kind_var:
            return self.kind_var
        raise TranslationError(f'kind expression outside subset: {ast.unparse(node)}')

    def test(self, node):
        if isinstance(node, ast.BoolOp):
            op = ' || ' if isinstance(node.op, ast.Or) else ' && '
            return '(' + op.join(self.test(v) for v in node.values) + ')'
        if isinstance(node, ast.Name):
            if node.id in self.bools:
                return node.id
            raise TranslationError(f'unknown Boolean {node.id}')
        if isinstance(node, ast.Compare) and len(node.ops) == 1:
            op, left, right = node.ops[0], node.left, node.comparators[0]
            if isinstance(op, ast.Eq):
                if isinstance(left, ast.Name) and isinstance(right, ast.Name) and left.id in self.params and right.id in self.params:
                    return f'({self.params[left.id]} == {self.params[right.id]})'
                return f'({self.kind_of(left)} == {self.c.kind(right)})'
            if isinstance(op, ast.In):
                ks = self.c.kinds(right)
                return f'([{", ".join(ks)}].contains {self.kind_of(left)})'
            if isinstance(op, ast.Is) and isinstance(left, ast.Attribute) and left.attr == 'type' and ast.unparse(right) == 'np.bool_' \
                    and isinstance(left.value, ast.Name) and left.value.id in self.params:
                return f'({self.params[left.value.id]} == DType.bool)'
        raise TranslationError(f'test outside subset: {ast.unparse(node)}')

    # ---- values
    def value(self, node, in_try=False, handler=None):
        src = ast.unparse(node)
        if self.value_mode == 'dtype':
            if isinstance(node, ast.Name) and node.id in self.params:
                return f'.ok {self.params[node.id]}'
            if src == 'DTYPE_OBJECT':
                return '.ok DType.obj'
            if isinstance(node, ast.Call) and ast.unparse(node.func) == 'np.result_type' and len(node.args) == 2 \
                    and all(isinstance(a, ast.Name) and a.id in self.params for a in node.args):
                a, b = (self.params[x.id] for x in node.args)
                if handler is None:
                    return f'rtOrRaise {a} {b}'
                return (f'(match resultType {a} {b} with\n      | .ok d => .ok d\n      | .typeError => {handler}\n'
                        f'      | .untabulated => .error .other)')
            raise TranslationError(f'value outside subset: {src}')
        table = {'np.nan': 'Elem.nanSingleton', 'NAT': 'Elem.npScalar (.dt .generic) .natD', 'None': 'Elem.none',
                 '0': 'Elem.py (.int 0)', 'False': 'Elem.py (.bool false)', "''": 'Elem.py (.str 0 0)',
                 'EMPTY_TIMEDELTA': 'Elem.npScalar (.td .generic) (.td .generic 0)'}
        if src in table:
            return table[src] if self.value_mode == 'elem' else f'some ({table[src]})'
        raise TranslationError(f'value outside subset: {src}')

    # ---- statements
    def block(self, stmts):
        if not stmts:
            raise TranslationError('function may fall off the end')
        s, rest = stmts[0], stmts[1:]
        if isinstance(s, ast.Expr) and isinstance(s.value, ast.Constant) and isinstance(s.value.value, str):
            return self.block(rest)
        if isinstance(s, ast.Return):
            if rest:
                raise TranslationError('statements after return')
            return self.value(s.value)
        if isinstance(s, ast.Raise):
            if self.value_mode != 'optelem' or rest:
                raise TranslationError('raise outside subset')
            return 'none'
        if isinstance(s, ast.Try):
            if len(s.body) == 1 and isinstance(s.body[0], ast.Return) and len(s.handlers) == 1 and not s.orelse and not s.finalbody \
                    and ast.unparse(s.handlers[0].type) == 'TypeError' and len(s.handlers[0].body) == 1 \
                    and isinstance(s.handlers[0].body[0], ast.Return):
                if rest:
                    raise TranslationError('statements after try/return')
                handler = self.value(s.handlers[0].body[0].value)
                return self.value(s.body[0].value, handler=handler)
            raise TranslationError('try statement outside subset')
        if isinstance(s, ast.Assign) and len(s.targets) == 1 and isinstance(s.targets[0], ast.Name):
            name = s.targets[0].id
            if ast.unparse(s) in ('dtype = np.dtype(dtype)',):
                return self.block(rest)
            if self.kind_var and name == self.kind_var and isinstance(s.value, ast.Attribute) and s.value.attr == 'kind':
                return f'let {name} := {self.kind_of(s.value)}\n' + self.block(rest)
            t = self.test(s.value)
            self.bools[name] = True
            return f'let {name} := {t}\n' + self.block(rest)
        if isinstance(s, ast.If):
            if ast.unparse(s.test) == 'not isinstance(dtype, np.dtype)':
                return self.block(rest)     # "we permit things like object, float": normalisation only
            if s.orelse:
                raise TranslationError('if with else outside subset')
            body = self.block(list(s.body))
            return f'if {self.test(s.test)} then {indent(body)}\nelse\n' + self.block(rest)
        raise TranslationError(f'statement outside subset: {ast.unparse(s)[:70]}')


def indent(s):
    return s.replace('\n', '\n  ')


def find(tree, name):
    for n in tree.body:
        if isinstance(n, ast.FunctionDef) and n.name == name:
            return n
    raise TranslationError(f'function {name} not found')


SPECS = [
    ('resolve_dtype', ['dt1', 'dt2'], '(dt1 dt2 : DType) : Except Err DType', 'dtype', None, '.error .other'),
    ('dtype_kind_to_na', ['kind'], '(kind : Kind) : Elem', 'elem', 'kind', 'Elem.none'),
    ('dtype_to_fill_value', ['dtype'], '(dtype : DType) : Option Elem', 'optelem', 'kind', 'none'),
]


def generate(repo):
    src = open(os.path.join(repo, 'static_frame/core/util.py')).read()
    tree = ast.parse(src)
    consts = Consts(tree)
    out = ['-- GENERATED by tools/py2lean_dtype.py from the current static_frame/core/util.py; do not edit.',
           'import SFModel.DType', '', 'namespace SF.Gen', '']
    errors = []
    for name, params, sig, mode, kind_var, stub in SPECS:
        try:
            fn = find(tree, name)
            got = [a.arg for a in fn.args.args]
            if got != params:
                raise TranslationError(f'parameters {got} differ from expected {params}')
            pm = {p: p for p in params if p != 'kind'}
            tr = Fn(consts, pm, kind_var=kind_var, value_mode=mode)
            body = tr.block(list(fn.body))
            out.append(f'-- static_frame/core/util.py :: {name}')
            out.append(f'def {name} {sig} :=\n  ' + indent(body) + '\n')
        except (TranslationError, SyntaxError) as ex:
            errors.append(f'{name}: {ex}')
            out.append(f'-- TRANSLATION FAILED: {ex}')
            out.append(f'def {name} {sig} := {stub}\n')
    out.append('end SF.Gen')
    return '\n'.join(out) + '\n', errors


def main():
    ap = argparse.ArgumentParser()
    ap.add_argument('--repo', default='/repo')
    ap.add_argument('--out', default=os.path.join(os.path.dirname(os.path.dirname(os.path.abspath(__file__))), 'lean', 'SFModel', 'Gen'))
    a = ap.parse_args()
    text, errors = generate(a.repo)
    os.makedirs(a.out, exist_ok=True)
    target = os.path.join(a.out, 'DType.lean')
    old = open(target).read() if os.path.exists(target) else None
    if old != text:
        with open(target, 'w') as f:
            f.write(text)
        print(f'py2lean_dtype: wrote {target}')
    else:
        print('py2lean_dtype: unchanged')
    for e in errors:
        print('py2lean_dtype: TRANSLATION-ERROR', e)
    return 1 if errors else 0


if __name__ == '__main__':
    sys.exit(main())
