#!/usr/bin/env python3
"""Regenerates the as-built tables of DESIGN.md (between the AUTOGEN markers) from tools/meta/*.json,
findings/*.json, known_findings.json, harness/sfv/props/*.py and seeded/*/meta.json."""
import importlib.util
import json
import os
import re
import sys

VERIF = os.path.dirname(os.path.dirname(os.path.abspath(__file__)))


def props():
    return [json.loads(l) for l in open(os.path.join(VERIF, 'properties.jsonl'))]


def module_consts(pid):
    """THEOREMS / PARTIAL / TARGETS of a property module without importing static_frame (regex on the source)"""
    p = os.path.join(VERIF, 'harness', 'sfv', 'props', pid.lower() + '.py')
    if not os.path.exists(p):
        return {}
    # the modules assemble their lists from sub-modules (c03_shift, c03_binop, ...): import them when possible
    try:
        for d in (os.path.join(VERIF, 'harness'), '/repo'):
            if d not in sys.path:
                sys.path.insert(0, d)
        import importlib
        mod = importlib.import_module('sfv.props.' + pid.lower())
        return {name: list(getattr(mod, name, [])) for name in ('THEOREMS', 'PARTIAL', 'TARGETS', 'CORR_ONLY')}
    except Exception:
        pass
    src = open(p).read()
    out = {}
    for name in ('THEOREMS', 'PARTIAL', 'TARGETS', 'CORR_ONLY'):
        m = re.search(r'^' + name + r'\s*=\s*(\[.*?\])\s*$', src, re.S | re.M)
        if m:
            try:
                out[name] = eval(m.group(1), {})
            except Exception:
                out[name] = []
    return out


def table_properties():
    rows = ['| id | Lean targets | theorems audited | partial (what is missing) | known findings (ids) |', '|---|---|---|---|---|']
    for p in props():
        pid = p['id']
        c = module_consts(pid)
        meta_p = os.path.join(VERIF, 'tools', 'meta', pid + '.json')
        meta = json.load(open(meta_p)) if os.path.exists(meta_p) else {}
        th = c.get('THEOREMS') or meta.get('theorems', [])
        partial = c.get('PARTIAL') or meta.get('partial', [])
        fnd = []
        fp = os.path.join(VERIF, 'findings', pid + '.json')
        if os.path.exists(fp):
            fnd = [f['id'] for f in json.load(open(fp)).get('findings', [])]
        kf = json.load(open(os.path.join(VERIF, 'known_findings.json')))
        fnd += [f['id'] for f in kf.get('findings', []) if f['property'] == pid]
        rows.append(f"| {pid} | {', '.join(t.replace('SFModel.', '') for t in c.get('TARGETS', []))} | {len(th)} | "
                    f"{'; '.join(x.split(':')[0] for x in partial) or '-'} | {', '.join(fnd) or '-'} |")
    return '\n'.join(rows)


def table_fixed():
    lines = []
    kf = json.load(open(os.path.join(VERIF, 'known_findings.json')))
    allf = list(kf.get('fixed', []))
    for fn in sorted(os.listdir(os.path.join(VERIF, 'findings'))):
        d = json.load(open(os.path.join(VERIF, 'findings', fn)))
        for x in d.get('fixed', []):
            if x not in allf and not (isinstance(x, str) and any(isinstance(y, str) and y.split()[2:3] == x.split()[2:3] for y in allf)):
                allf.append(x)
    for x in allf:
        lines.append('* ' + (x if isinstance(x, str) else json.dumps(x)))
    return '\n'.join(lines)


def table_findings():
    rows = ['| id | property | what fails | why recorded, not repaired |', '|---|---|---|---|']
    items = list(json.load(open(os.path.join(VERIF, 'known_findings.json'))).get('findings', []))
    for fn in sorted(os.listdir(os.path.join(VERIF, 'findings'))):
        items += json.load(open(os.path.join(VERIF, 'findings', fn))).get('findings', [])
    for f in items:
        what = f['what'].replace('|', '\\|').replace('\n', ' ')
        why = f.get('why_not_fixed', '').replace('|', '\\|').replace('\n', ' ')
        rows.append(f"| {f['id']} | {f['property']} | {what[:330]} | {why[:200]} |")
    return '\n'.join(rows)


def table_seeded():
    d = os.path.join(VERIF, 'seeded')
    rows = ['| seeded change | property | what it needs to manifest | confirmed (demo / suite) | caught by |', '|---|---|---|---|---|']
    if not os.path.isdir(d):
        return '(none yet)'
    for sid in sorted(os.listdir(d)):
        mp = os.path.join(d, sid, 'meta.json')
        if not os.path.exists(mp):
            continue
        m = json.load(open(mp))
        conf = m.get('confirmed', {})
        c = ('yes' if conf.get('ok') else 'no') + (f" ({conf.get('suite', '')})" if conf else ' (pending)')
        caught = m.get('caught', {})
        cb = '; '.join(f"{k}: {v}" for k, v in caught.items()) or 'not run yet'
        rows.append(f"| {sid} | {m.get('property')} | {m.get('needs', '')[:260].replace('|', '/')} | {c} | {cb[:300].replace('|', '/')} |")
    return '\n'.join(rows)


def main():
    p = os.path.join(VERIF, 'DESIGN.md')
    s = open(p).read()
    for name, fn in (('PROPERTIES', table_properties), ('FIXED', table_fixed), ('FINDINGS', table_findings), ('SEEDED', table_seeded)):
        a, b = f'<!-- AUTOGEN:{name}:BEGIN -->', f'<!-- AUTOGEN:{name}:END -->'
        if a in s and b in s:
            i, j = s.index(a) + len(a), s.index(b)
            s = s[:i] + '\n' + fn() + '\n' + s[j:]
    open(p, 'w').write(s)
    print('DESIGN tables regenerated')


if __name__ == '__main__':
    main()
