#!/venv/bin/python
"""Run the pinned test suite of /repo (guard off) and compare with BASELINE.json stable_pass.
usage: baseline_check.py [repo_dir]   exit 0 iff every stable_pass test passes."""
import json, os, subprocess, sys, tempfile, xml.etree.ElementTree as ET
src = sys.argv[1] if len(sys.argv) > 1 else '/repo'
base = json.load(open('/root/.vp/BASELINE.json'))
# run in a scratch copy outside /repo and /verif: pytest/hypothesis write caches (.hypothesis example
# database, .benchmarks) into the working directory, which would pollute the tree under test
with tempfile.TemporaryDirectory(dir='/var/tmp') as td:
    repo = os.path.join(td, 'repo')
    subprocess.run(['rsync', '-a', '--exclude', '.git', '--exclude', '.hypothesis', src.rstrip('/') + '/', repo + '/'], check=True)
    jx = os.path.join(td, 'j.xml')
    env = dict(os.environ); env.pop('STATIC_FRAME_VERIF', None); env['TMPDIR'] = td
    subprocess.run(['/venv/bin/python', '-m', 'pytest', '-q', '-p', 'no:cacheprovider', '--timeout=900',
                    '--continue-on-collection-errors', '-n', '12', f'--junitxml={jx}'],
                   cwd=repo, env=env, stdout=subprocess.DEVNULL, stderr=subprocess.DEVNULL)
    passed = set()
    for tc in ET.parse(jx).getroot().iter('testcase'):
        if not any(ch.tag in ('failure', 'error', 'skipped') for ch in tc):
            passed.add(f"{tc.get('classname')}::{tc.get('name')}")
    missing = [t for t in base["stable_pass"] if t not in passed]
    # hypothesis-based property tests and a few timing-sensitive tests fail now and then under load: re-run the
    # missing ones on their own (twice at most) before calling them missing
    for attempt in range(3):
        if not missing or len(missing) > 40:
            break
        still = []
        for t in missing:
            cls, _, name = t.partition('::')
            path = cls.split('.')
            # classname is module path [+ class]; find the file
            mod = path[:-1] if path[-1][:1].isupper() else path
            fn = os.path.join(repo, *mod) + '.py'
            node = fn + ('::' + path[-1] if path[-1][:1].isupper() else '') + '::' + name
            # hypothesis stores a failing example in .hypothesis and replays it first: remove it so that the re-run draws afresh
            import shutil
            shutil.rmtree(os.path.join(repo, '.hypothesis'), ignore_errors=True)
            r = subprocess.run(['/venv/bin/python', '-m', 'pytest', '-q', '-p', 'no:cacheprovider', '--timeout=900', node],
                               cwd=repo, env=env, stdout=subprocess.DEVNULL, stderr=subprocess.DEVNULL)
            if r.returncode != 0:
                still.append(t)
        missing = still
print(f'stable_pass={len(base["stable_pass"])} passed_now={len(passed)} missing={len(missing)}')
for t in missing[:40]:
    print('  MISSING', t)
sys.exit(1 if missing else 0)
