#!/venv/bin/python
"""Mutation self-test of tools/py2lean_window.py + lean/SFModel/BridgeWindow.lean (NOT part of the check).

For each small source mutation of `container_util.axis_window_items` (applied to a scratch copy of the
package, /repo is never touched) it reports
  * semantic?   the mutated REAL function answers differently from the unmutated one somewhere on a grid of
                argument tuples (ground truth, independent of Lean),
  * translator  rejected (TRANSLATION-ERROR) | generated Lean changed | unchanged,
  * bridge      the bridge lemmas (+ Props/C13Window) re-checked by Lean against the generated text:
                fails | holds   (checked in a scratch file: generated text + BridgeWindow.lean, the tree is not modified),
  * noticed     rejected or bridge fails,
and, with --check-missed, runs `harness/check.py C13 --tier quick --no-build` against the scratch copy for the
mutations that translation and bridge do not notice (data-only statements: correspondence must catch them).

Exit 0 iff every semantic mutation is noticed (by translation / bridge, or - for data-only routing - by the
correspondence run when --check-missed is given) and no mutation that keeps the meaning breaks the bridge
unexpectedly (see `expect`).

usage: selftest_py2lean_window.py [--only id,...] [--check-missed] [--markdown]
"""
from __future__ import annotations

import argparse
import hashlib
import json
import os
import shutil
import subprocess
import sys
import tempfile

VERIF = os.path.dirname(os.path.dirname(os.path.abspath(__file__)))
LEAN_DIR = os.path.join(VERIF, 'lean')
REPO = '/repo'
REL = 'static_frame/core/container_util.py'

# (id, what, old text, new text, expectation)
#   expectation: 'sem'   - changes the meaning; must be noticed (rejected or bridge fails)
#                'equiv' - keeps the meaning; the generated Lean changes, the bridge must still hold
#                'data'  - changes a data-only statement the translator abstracts: noticed by correspondence only
#                'state' - keeps the meaning on every reachable state but not for arbitrary loop states: the bridge
#                          (stated for all states) is allowed to fail
MUTATIONS = [
    ('m01', 'guard size <= 0 -> size < 0', 'if size <= 0:', 'if size < 0:', 'sem'),
    ('m02', 'guard step < 0 -> step <= 0', 'if step < 0:', 'if step <= 0:', 'sem'),
    ('m03', 'start_shift >= 0 -> start_shift > 0 (abs(0) = 0: same value)', 'if start_shift >= 0:', 'if start_shift > 0:', 'equiv'),
    ('m04', 'count_window_max: + abs(start_shift) -> - abs(start_shift)', 'len(labels) + abs(start_shift)', 'len(labels) - abs(start_shift)', 'sem'),
    ('m05', 'idx_left_max = count_window_max - 1 -> count_window_max', 'idx_left_max = count_window_max - 1', 'idx_left_max = count_window_max', 'sem'),
    ('m06', 'idx_left = start_shift -> 0', '    idx_left = start_shift\n', '    idx_left = 0\n', 'sem'),
    ('m07', 'count = 0 -> 1', '    count = 0\n', '    count = 1\n', 'sem'),
    ('m08', 'idx_right = idx_left + size - 1 -> idx_left + size', 'idx_right = idx_left + size - 1', 'idx_right = idx_left + size', 'sem'),
    ('m09', 'dropped floor of idx_left', 'idx_left_floored = idx_left if idx_left > 0 else 0', 'idx_left_floored = idx_left', 'sem'),
    ('m10', 'floor of idx_left: > 0 -> > 1', 'idx_left if idx_left > 0 else 0', 'idx_left if idx_left > 1 else 0', 'sem'),
    ('m11', 'dropped floor of idx_right', 'idx_right_floored = idx_right if idx_right > -1 else -1', 'idx_right_floored = idx_right', 'sem'),
    ('m12', 'floor of idx_right: > -1 -> > 0', 'idx_right if idx_right > -1 else -1', 'idx_right if idx_right > 0 else -1', 'sem'),
    ('m13', 'floor constant of idx_right: else -1 -> else 0', 'idx_right if idx_right > -1 else -1', 'idx_right if idx_right > -1 else 0', 'sem'),
    ('m14', 'key stop: idx_right_floored + 1 -> idx_right_floored', 'slice(idx_left_floored, idx_right_floored + 1)', 'slice(idx_left_floored, idx_right_floored)', 'sem'),
    ('m15', 'idx_label = idx_right + label_shift -> - label_shift', 'idx_label = idx_right + label_shift', 'idx_label = idx_right - label_shift', 'sem'),
    ('m16', 'idx_label < 0 -> idx_label <= 0', 'if idx_label < 0:', 'if idx_label <= 0:', 'sem'),
    ('m17', 'idx_label < 0 -> idx_label < -1 (position -1 wraps to the last label)', 'if idx_label < 0:', 'if idx_label < -1:', 'sem'),
    ('m18', 'label lookup at idx_right instead of idx_label', 'labels.iloc[idx_label]', 'labels.iloc[idx_right]', 'sem'),
    ('m19', 'except IndexError -> except KeyError', 'except IndexError:', 'except KeyError:', 'sem'),
    ('m20', 'window.shape[axis] != size -> > size', 'window.shape[axis] != size', 'window.shape[axis] > size', 'sem'),
    ('m21', 'window_sized -> not window_sized', 'if valid and window_sized and', 'if valid and not window_sized and', 'sem'),
    ('m22', 'not window_valid(window) -> window_valid(window)', 'and not window_valid(window)', 'and window_valid(window)', 'sem'),
    ('m23', 'swapped independent updates (idx_left / size)', '        idx_left += step\n        size += size_increment\n',
     '        size += size_increment\n        idx_left += step\n', 'equiv'),
    ('m24', 'idx_left += step -> idx_left -= step', 'idx_left += step', 'idx_left -= step', 'sem'),
    ('m25', 'size += size_increment -> size -= size_increment', 'size += size_increment', 'size -= size_increment', 'sem'),
    ('m26', 'count += 1 -> count += 2', 'count += 1', 'count += 2', 'sem'),
    ('m27', 'exit: count > count_window_max -> >=', 'if count > count_window_max or', 'if count >= count_window_max or', 'sem'),
    ('m28', 'exit: idx_left > idx_left_max -> >=', 'or idx_left > idx_left_max or', 'or idx_left >= idx_left_max or', 'sem'),
    ('m29', 'exit: size < 0 -> size <= 0', 'or size < 0:', 'or size <= 0:', 'sem'),
    ('m30', 'exit: or size < 0 -> and size < 0', 'idx_left > idx_left_max or size < 0:', 'idx_left > idx_left_max and size < 0:', 'sem'),
    ('m31', 'count += 1 moved after the exit test', '        count += 1\n\n        if count > count_window_max or idx_left > idx_left_max or size < 0:\n            break\n',
     '        if count > count_window_max or idx_left > idx_left_max or size < 0:\n            break\n        count += 1\n', 'sem'),
    ('m32', 'default step: int = 1 -> 2', '        step: int = 1,\n        window_sized: bool = True,\n        window_func: tp.Optional[AnyCallable] = None,\n        window_valid: tp.Optional[AnyCallable] = None,\n        label_shift: int = 0,\n        start_shift: int = 0,\n        size_increment: int = 0,\n        as_array: bool = False,\n        ) -> tp.Iterator[tp.Tuple[tp.Hashable, tp.Any]]:\n    \'\'\'Generator of index, window pairs.',
     '        step: int = 2,\n        window_sized: bool = True,\n        window_func: tp.Optional[AnyCallable] = None,\n        window_valid: tp.Optional[AnyCallable] = None,\n        label_shift: int = 0,\n        start_shift: int = 0,\n        size_increment: int = 0,\n        as_array: bool = False,\n        ) -> tp.Iterator[tp.Tuple[tp.Hashable, tp.Any]]:\n    \'\'\'Generator of index, window pairs.', 'sem'),
    ('m33', 'yield label, window -> yield window, label', 'yield label, window', 'yield window, label', 'sem'),
    ('m34', 'extraction by something else than key', 'window = source._extract_iloc(key)', 'window = source._extract_iloc(slice(idx_left, idx_right + 1))', 'sem'),
    ('m35', 'an extra statement outside the subset in the loop (idx_left = max(idx_left, 0))', '        idx_right = idx_left + size - 1\n',
     '        idx_left = max(idx_left, 0)\n        idx_right = idx_left + size - 1\n', 'sem'),
    ('m36', 'window_sized test on the length only when valid dropped (if window_sized and ...)', 'if valid and window_sized and window.shape[axis] != size:',
     'if window_sized and window.shape[axis] != size:', 'equiv'),
    ('m37', 'data-only routing: labels of the other axis for frames', 'labels = source._index if axis == 0 else source._columns',
     'labels = source._columns if axis == 0 else source._index', 'data'),
    ('m38', 'data-only routing: rows extracted where columns are asked for', 'window = source._extract(column_key=key)', 'window = source._extract(row_key=key)', 'data'),
    ('m39', 'window.shape[axis] != size -> < size (same on reachable states: a clipped window is never longer)', 'window.shape[axis] != size',
     'window.shape[axis] < size', 'state'),
]

GRID_SCRIPT = r'''
import json, sys, itertools
sys.path.insert(0, sys.argv[1] + '/harness')
from sfv.props import c13_window_gen as w
import inspect
from static_frame.core.container_util import axis_window_items
out = []
d = {k: repr(p.default) for k, p in inspect.signature(axis_window_items).parameters.items()}
out.append(d)
for n in range(0, 5):
    for size in range(0, 4):
        for step in range(-1, 3):
            for ls in range(-2, 4):
                for ss in range(-3, 3):
                    for inc in (-1, 0, 1):
                        for sized in (True, False):
                            for wv, src in (('-', 'series'), (1 if n > 1 else 'N', 'frame1'), ('N', 'frame0_arr')):
                                if src == 'frame1' and (n + size + step + ls) % 3:
                                    continue
                                if src == 'frame0_arr' and (n + size + ss + inc) % 4:
                                    continue
                                out.append(w.wgrid_real(w.wgrid_case(n, size, step, sized, ls, ss, inc, wv, src)))
print(json.dumps(out, default=str))
'''


def make_scratch(td, old, new, rel=None):
    """scratch/static_frame: symlinks into /repo except the mutated file (default container_util.py); returns (root, ok)"""
    rel = rel or REL
    fname = os.path.basename(rel)
    root = os.path.join(td, 'repo')
    pkg, core = os.path.join(root, 'static_frame'), os.path.join(root, 'static_frame', 'core')
    os.makedirs(core)
    for e in os.listdir(os.path.join(REPO, 'static_frame')):
        if e not in ('core', '__pycache__'):
            os.symlink(os.path.join(REPO, 'static_frame', e), os.path.join(pkg, e))
    for e in os.listdir(os.path.join(REPO, 'static_frame', 'core')):
        if e not in (fname, '__pycache__'):
            os.symlink(os.path.join(REPO, 'static_frame', 'core', e), os.path.join(core, e))
    src = open(os.path.join(REPO, rel)).read()
    if old is not None:
        if src.count(old) != 1:
            return root, False
        src = src.replace(old, new)
    with open(os.path.join(core, fname), 'w') as f:
        f.write(src)
    return root, True


def grid_hash(root, script=None):
    env = dict(os.environ, SFV_REPO=root, PYTHONDONTWRITEBYTECODE='1')
    p = subprocess.run(['/venv/bin/python', '-c', script or GRID_SCRIPT, VERIF], capture_output=True, text=True, env=env, cwd=root)
    if p.returncode != 0:
        return 'crash:' + p.stderr.strip().splitlines()[-1][:80]
    return hashlib.sha1(p.stdout.encode()).hexdigest()


def translate(root, outdir, tool='py2lean_window.py', gen='Window.lean'):
    p = subprocess.run(['/venv/bin/python', os.path.join(VERIF, 'tools', tool), '--repo', root, '--out', outdir],
                       capture_output=True, text=True)
    errs = [l.split('TRANSLATION-ERROR', 1)[1].strip() for l in p.stdout.splitlines() if 'TRANSLATION-ERROR' in l]
    return open(os.path.join(outdir, gen)).read(), errs


BRIDGE_FILES = ['BridgeWindow.lean', os.path.join('Props', 'C13Window.lean')]
BRIDGE_IMPORTS = ['SFModel.WindowSem', 'SFModel.Window', 'SFModel.Props.C13']


def bridge_holds(gen_text, td, files=None, imports=None):
    """Lean re-checks the bridge files (default BridgeWindow.lean + Props/C13Window.lean) against `gen_text` in one scratch file"""
    def body(path):
        return '\n'.join(l for l in open(path).read().splitlines() if not l.startswith('import '))
    parts = [body(os.path.join(LEAN_DIR, 'SFModel', f)) for f in (files or BRIDGE_FILES)]
    gen = '\n'.join(l for l in gen_text.splitlines() if not l.startswith('import '))
    text = ''.join(f'import {m}\n' for m in (imports or BRIDGE_IMPORTS)) + gen + '\n' + '\n'.join(parts) + '\n'
    path = os.path.join(td, 'BridgeCheck.lean')
    with open(path, 'w') as f:
        f.write(text)
    p = subprocess.run(['lake', 'env', 'lean', path], cwd=LEAN_DIR, capture_output=True, text=True, timeout=1200)
    import re
    failed = sorted({m.group(1) for m in re.finditer(r'^\S*BridgeCheck\.lean:(\d+):\d+: error', p.stdout + p.stderr, re.M)}, key=int)
    return p.returncode == 0, (p.stdout + p.stderr), failed


def failing_theorems(text_path, lines):
    """names of the theorems that contain the failing line numbers"""
    src = open(text_path).read().splitlines()
    out = []
    for ln in lines:
        try:
            i = int(ln) - 1
        except ValueError:
            continue
        while i >= 0 and not src[i].startswith(('theorem ', 'example', '/--')):
            i -= 1
        if i >= 0 and src[i].startswith('/--'):        # reported at the doc comment of the declaration: the declaration follows
            while i < len(src) and not src[i].startswith(('theorem ', 'example')):
                i += 1
        if 0 <= i < len(src):
            name = src[i].split()[1] if src[i].startswith('theorem') else 'example'
            if name not in out:
                out.append(name)
    return out


def main(mutations=None, rel=None, tool='py2lean_window.py', genfile='Window.lean', files=None, imports=None, grid_script=None, prop='C13',
         fn_name='axis_window_items'):
    """(the parameters let tools/selftest_py2lean_targets.py reuse this driver for another translator)"""
    mutations = mutations or MUTATIONS
    ap = argparse.ArgumentParser()
    ap.add_argument('--only', default='')
    ap.add_argument('--check-missed', action='store_true', help=f'run check.py {prop} quick (--no-build) on the scratch copy for mutations nothing else notices')
    ap.add_argument('--markdown', action='store_true')
    a = ap.parse_args()
    only = set(x for x in a.only.split(',') if x)
    td = tempfile.mkdtemp(prefix='sfwin_', dir='/var/tmp')
    rows, bad = [], []
    try:
        base_root, _ = make_scratch(os.path.join(td, 'base'), None, None, rel)
        base_hash = grid_hash(base_root, grid_script)
        base_dir = os.path.join(td, 'base', 'gen')
        os.makedirs(base_dir)
        base_text, base_errs = translate(base_root, base_dir, tool, genfile)
        ok, log, _ = bridge_holds(base_text, os.path.join(td, 'base'), files, imports)
        print(f'baseline: translation errors {base_errs}, bridge {"holds" if ok else "FAILS"}')
        if base_errs or not ok:
            print(log[-1500:])
            return 2
        for mid, what, old, new, expect in mutations:
            if only and mid not in only:
                continue
            d = os.path.join(td, mid)
            root, applied = make_scratch(d, old, new, rel)
            if not applied:
                rows.append((mid, what, expect, 'NOT APPLIED (source text not found exactly once)', '', '', '', ''))
                bad.append(mid)
                continue
            h = grid_hash(root, grid_script)
            semantic = h != base_hash
            outdir = os.path.join(d, 'gen')
            os.makedirs(outdir)
            text, errs = translate(root, outdir, tool, genfile)
            if errs:
                tr, br, thms = 'rejected: ' + errs[0][len(fn_name) + 2:][:90], 'fails (stub)', ''
                noticed = True
            else:
                changed = text != base_text
                only_comment = changed and strip_comments(text) == strip_comments(base_text)
                tr = 'unchanged' if not changed else ('comment only' if only_comment else 'generated Lean changed')
                ok, log, lines = bridge_holds(text, d, files, imports)
                br = 'holds' if ok else 'fails'
                thms = ', '.join(failing_theorems(os.path.join(d, 'BridgeCheck.lean'), lines)[:5]) if not ok else ''
                noticed = not ok
            corr = ''
            if a.check_missed and not noticed:
                env = dict(os.environ, SFV_REPO=root, VERIF_SEED='0')
                p = subprocess.run(['/venv/bin/python', os.path.join(VERIF, 'harness', 'check.py'), prop, '--tier', 'quick', '--no-build'],
                                   capture_output=True, text=True, env=env, cwd=VERIF)
                v = [l for l in p.stdout.splitlines() if l.startswith(('VIOLATION', 'FAILING-INPUT'))]
                corr = ('caught: ' + v[0][:100]) if p.returncode == 1 and v else 'not caught'
            verdict = 'ok'
            if expect == 'sem' and not noticed:
                verdict = 'MISSED'
            if expect == 'sem' and not semantic and not h.startswith('crash'):
                verdict += ' (grid saw no difference)'
            if expect == 'equiv' and (noticed or semantic):
                verdict = 'UNEXPECTED'
            if expect == 'data' and a.check_missed and not corr.startswith('caught'):
                verdict = 'MISSED'
            if verdict.startswith(('MISSED', 'UNEXPECTED')):
                bad.append(mid)
            rows.append((mid, what, expect, 'yes' if semantic else 'no', tr, br + (f' ({thms})' if thms else ''), 'yes' if noticed else 'no', corr, verdict))
            print(' | '.join(str(x) for x in rows[-1]), flush=True)
    finally:
        shutil.rmtree(td, ignore_errors=True)
    if a.markdown:
        print('\n| id | mutation | kind | behaviour differs on grid | translator | bridge | noticed | correspondence | verdict |')
        print('|---|---|---|---|---|---|---|---|---|')
        for r in rows:
            print('| ' + ' | '.join(str(x).replace('|', '\\|') for x in r) + ' |')
    print(f'{len(rows)} mutations, problems: {bad}')
    return 1 if bad else 0


def strip_comments(text):
    import re
    text = re.sub(r'/-.*?-/', '', text, flags=re.S)
    return re.sub(r'--.*', '', text)


if __name__ == '__main__':
    sys.exit(main())
