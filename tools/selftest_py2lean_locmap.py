#!/venv/bin/python
"""Self-test of tools/py2lean_locmap.py (NOT part of the check): small mutations of LocMap.map_slice_args /
LocMap.loc_to_iloc (and of the util.py constants they use) in a scratch copy of static_frame; for each one

  1. translate the mutated source                      -> `rejected` (TRANSLATION-ERROR), or
  2. compare with the translation of the real source   -> `generated unchanged`, or
  3. put the translation in place, `lake build SFModel.BridgeLocMap SFModel.Props.C02LocMap`
                                                       -> `bridge failed` (names the lemmas) | `bridge passed`
  4. (when translated) rebuild the driver and run the grid of harness/sfv/props/locmap_grid.py with the MUTATED
     static_frame as the real code: `gen!=real` counts keys where the translation of the mutant differs from the
     mutant itself (must be 0: the translator reads the mutant faithfully), `oracle` counts keys where the mutant
     breaks the stop-inclusive reference (shows the mutation is semantic on the grid).

Kinds: semantic = changes the behaviour of the translated region (must be rejected or break a bridge lemma);
equivalent = same behaviour under the translator's typing assumptions; skipped = inside the np.datetime64 arm;
outside = in the branches of loc_to_iloc that are not translated.

usage: selftest_py2lean_locmap.py [--only ID,ID] [--no-grid] [--md out.md]
"""
from __future__ import annotations

import argparse
import json
import os
import re
import shutil
import subprocess
import sys
import tempfile
import time

HERE = os.path.dirname(os.path.abspath(__file__))
VERIF = os.path.dirname(HERE)
sys.path.insert(0, HERE)
sys.path.insert(0, os.path.join(VERIF, 'harness'))
import py2lean_locmap as tr  # noqa: E402

IX, UT = tr.INDEX_PY, tr.UTIL_PY
LEAN_DIR = os.path.join(VERIF, 'lean')
GEN = os.path.join(LEAN_DIR, 'SFModel', 'Gen', 'LocMap.lean')

BOUND_BLOCK = re.compile(r"            if offset_apply:\n                # positions are shifted.*?(?=            return slice\(start, stop, step\))", re.S)
STOP_BLOCK = re.compile(r"                    if key\.step is not None and key\.step < 0:\n.*?                        pos \+= 1 #type: ignore\n(?=\n                yield pos)", re.S)

# (id, kind, file, old, new, what) - `old` must occur exactly once (a compiled regex: exactly one match)
M = [
    # ---- map_slice_args, non-datetime arm
    ('A01', 'semantic', IX, "        offset_apply = not offset is None\n\n        for field in SLICE_ATTRS:", "        offset_apply = offset is None\n\n        for field in SLICE_ATTRS:", 'map_slice_args: offset_apply negated'),
    ('A02', 'semantic', IX, "            if attr is None:\n                yield None\n", "            if attr is None:\n                yield 0\n", 'None attribute yields 0'),
    ('A03', 'semantic', IX, "                if field != SLICE_STEP_ATTR:\n                    pos = label_to_pos(attr)", "                if field == SLICE_STEP_ATTR:\n                    pos = label_to_pos(attr)", 'field != STEP -> =='),
    ('A04', 'semantic', IX, "                    pos = label_to_pos(attr)\n                    if pos is None:\n                        # NOTE", "                    pos = label_to_pos(key.start)\n                    if pos is None:\n                        # NOTE", 'every field looks up key.start'),
    ('A05', 'semantic', IX, "                        raise LocInvalid('Invalid loc given in a slice', attr, field)\n                    if offset_apply:", "                        raise LocEmpty()\n                    if offset_apply:", 'absent label raises LocEmpty (-> EMPTY_SLICE)'),
    ('A06', 'semantic', IX, "                    if pos is None:\n                        # NOTE: could raise LocEmpty() to silently handle this\n                        raise LocInvalid('Invalid loc given in a slice', attr, field)\n                    if offset_apply:", "                    if offset_apply:", 'absent-label check removed'),
    ('A07', 'semantic', IX, "                    if offset_apply:\n                        pos += offset #type: ignore\n                else: # step", "                    if offset_apply:\n                        pos -= offset #type: ignore\n                else: # step", 'pos -= offset'),
    ('A08', 'semantic', IX, "                    if offset_apply:\n                        pos += offset #type: ignore\n                else: # step", "                    if not offset_apply:\n                        pos += offset #type: ignore\n                else: # step", 'offset applied when NOT offset_apply'),
    ('A09', 'semantic', IX, "                else: # step\n                    pos = attr # should be an integer\n\n                if field == SLICE_STOP_ATTR:\n                    # loc", "                else: # step\n                    pos = None # should be an integer\n\n                if field == SLICE_STOP_ATTR:\n                    # loc", 'step dropped'),
    ('A10', 'semantic', IX, "                if field == SLICE_STOP_ATTR:\n                    # loc selections", "                if field == SLICE_START_ATTR:\n                    # loc selections", 'inclusive adjustment on the START field'),
    ('A11', 'semantic', IX, "key.step is not None and key.step < 0:", "key.step is not None and key.step <= 0:", 'step < 0 -> <= 0'),
    ('A12', 'semantic', IX, "key.step is not None and key.step < 0:", "key.step is not None and key.step > 0:", 'step < 0 -> > 0'),
    ('A13', 'semantic', IX, "key.step is not None and key.step < 0:", "key.step is not None or key.step < 0:", 'and -> or'),
    ('A14', 'semantic', IX, "key.step is not None and key.step < 0:", "key.step.__class__ is int and key.step < 0:", 'repair b8dc316 undone (class test: F90 again)'),
    ('A15', 'semantic', IX, "key.step is not None and key.step < 0:", "key.step < 0:", 'None test dropped (None < 0)'),
    ('A16', 'semantic', IX, "                        pos -= 1 #type: ignore\n                        if pos < 0:", "                        pos -= 2 #type: ignore\n                        if pos < 0:", 'descending stop: pos -= 2'),
    ('A17', 'semantic', IX, "                        if pos < 0:\n                            pos = None # the stop", "                        if pos <= 0:\n                            pos = None # the stop", 'pos < 0 -> <= 0'),
    ('A18', 'semantic', IX, "                            pos = None # the stop label is the first position", "                            pos = 0 # the stop label is the first position", 'below 0 -> 0 instead of None'),
    ('A19', 'semantic', IX, "                    else:\n                        pos += 1 #type: ignore\n\n                yield pos\n\n    @classmethod", "                    else:\n                        pos += 2 #type: ignore\n\n                yield pos\n\n    @classmethod", 'ascending stop: pos += 2'),
    ('A20', 'semantic', IX, STOP_BLOCK, "                    pos += 1 #type: ignore\n", 'repair 51a0a39 undone (stop + 1 whatever the step)'),
    ('A21', 'semantic', IX, "                yield pos\n\n    @classmethod", "                yield None\n\n    @classmethod", 'non-datetime arm yields None'),
    ('A22', 'semantic', IX, "            elif isinstance(attr, np.datetime64):\n                assert labels", "            elif isinstance(attr, np.timedelta64):\n                assert labels", 'the datetime arm tests another class'),
    ('A23', 'skipped', IX, "                        pos += 1 #type: ignore  # stop is inclusive", "                        pos += 2 #type: ignore  # stop is inclusive", 'inside the np.datetime64 arm'),
    ('A24', 'semantic', IX, "            attr = getattr(key, field)\n", "            attr = getattr(key, SLICE_START_ATTR)\n", 'every iteration reads key.start'),
    # ---- constants (util.py)
    ('U01', 'semantic', UT, "SLICE_ATTRS = (SLICE_START_ATTR, SLICE_STOP_ATTR, SLICE_STEP_ATTR)", "SLICE_ATTRS = (SLICE_STOP_ATTR, SLICE_START_ATTR, SLICE_STEP_ATTR)", 'SLICE_ATTRS reordered'),
    ('U02', 'semantic', UT, "SLICE_STOP_ATTR = 'stop'", "SLICE_STOP_ATTR = 'start'", "SLICE_STOP_ATTR = 'start'"),
    ('U03', 'semantic', UT, "NULL_SLICE = slice(None) # gathers everything", "NULL_SLICE = slice(None, None, 1) # gathers everything", 'NULL_SLICE = slice(None, None, 1)'),
    ('U04', 'semantic', UT, "EMPTY_SLICE = slice(0, 0) # gathers nothing", "EMPTY_SLICE = slice(0, 1) # gathers nothing", 'EMPTY_SLICE = slice(0, 1)'),
    # ---- loc_to_iloc, slice branch
    ('B01', 'semantic', IX, "        offset_apply = not offset is None\n\n        # ILoc is handled", "        offset_apply = offset is None\n\n        # ILoc is handled", 'loc_to_iloc: offset_apply negated'),
    ('B02', 'semantic', IX, "if offset_apply and key == NULL_SLICE:", "if offset_apply or key == NULL_SLICE:", 'shortcut: and -> or'),
    ('B03', 'semantic', IX, "if offset_apply and key == NULL_SLICE:", "if offset_apply and key != NULL_SLICE:", 'shortcut: == -> !='),
    ('B04', 'semantic', IX, "return slice(offset, len(positions) + offset) #type: ignore", "return slice(offset, len(positions)) #type: ignore", 'shortcut stop without offset'),
    ('B05', 'semantic', IX, "return slice(offset, len(positions) + offset) #type: ignore", "return slice(0, len(positions) + offset) #type: ignore", 'shortcut start 0'),
    ('B06', 'semantic', IX, "            except LocEmpty:\n", "            except LocInvalid:\n", 'handler catches LocInvalid'),
    ('B07', 'semantic', IX, "            except LocEmpty:\n                return EMPTY_SLICE\n", "            except LocEmpty:\n                return NULL_SLICE\n", 'handler returns NULL_SLICE'),
    ('B08', 'semantic', IX, "            if offset_apply:\n                # positions are shifted", "            if not offset_apply:\n                # positions are shifted", 'bound block when NOT offset_apply'),
    ('B09', 'semantic', IX, "if step is None or step > 0: #type: ignore", "if step is None or step >= 0: #type: ignore", 'step > 0 -> >= 0'),
    ('B10', 'semantic', IX, "if step is None or step > 0: #type: ignore", "if step is None and step > 0: #type: ignore", 'or -> and (None > 0)'),
    ('B11', 'semantic', IX, "                    if start is None:\n                        start = offset\n", "                    if start is None:\n                        start = 0\n", 'ascending open start = 0'),
    ('B12', 'semantic', IX, "                        stop = offset + len(positions) #type: ignore\n", "                        stop = offset + len(positions) - 1 #type: ignore\n", 'ascending open stop one short'),
    ('B13', 'semantic', IX, "                        start = offset + len(positions) - 1 #type: ignore\n", "                        start = offset + len(positions) #type: ignore\n", 'descending open start one past'),
    ('B14', 'semantic', IX, "if stop is None and offset > 0: #type: ignore", "if stop is None and offset >= 0: #type: ignore", 'offset > 0 -> >= 0 (stop -1 at offset 0)'),
    ('B15', 'semantic', IX, "                        stop = offset - 1 #type: ignore\n", "                        stop = offset #type: ignore\n", 'descending open stop = offset (first position lost)'),
    ('B16', 'semantic', IX, "            return slice(start, stop, step)\n", "            return slice(stop, start, step)\n", 'start / stop swapped in the result'),
    ('B17', 'semantic', IX, "                        labels,\n                        offset)\n", "                        labels,\n                        None)\n", 'map_slice_args called without the offset'),
    ('B18', 'semantic', IX, "                start, stop, step = cls.map_slice_args(", "                stop, start, step = cls.map_slice_args(", 'unpacking order swapped'),
    ('B19', 'semantic', IX, BOUND_BLOCK, "", 'repair 79a552f undone (open ends not bounded)'),
    ('B20', 'equivalent', IX, "        offset_apply = not offset is None\n\n        # ILoc is handled", "        offset_apply = offset is not None\n\n        # ILoc is handled", '`not x is None` -> `x is not None`'),
    ('B21', 'equivalent', IX, "                # positions are shifted by an offset into a larger sequence: an open end must not run past this index\n", "                # (comment edited)\n", 'comment only'),
    ('B22', 'semantic', IX, "        if isinstance(key, slice):\n            if offset_apply and key", "        offset = 0\n        if isinstance(key, slice):\n            if offset_apply and key", 'parameter re-assigned before the branch'),
    ('B23', 'semantic', IX, "            if offset_apply:\n                # positions are shifted", "            step = 1\n            if offset_apply:\n                # positions are shifted", 'step overwritten after map_slice_args'),
    # ---- loc_to_iloc, list and element branches
    ('L01', 'semantic', IX, "            return label_to_pos[key] + offset #type: ignore\n", "            return label_to_pos[key] - offset #type: ignore\n", 'element: - offset'),
    ('L02', 'semantic', IX, "                return [label_to_pos[k] + offset for k in key] #type: ignore\n", "                return [label_to_pos[k] for k in key] #type: ignore\n", 'list: offset dropped'),
    ('L03', 'semantic', IX, "            if partial_selection:\n", "            if not partial_selection:\n", 'partial_selection negated'),
    ('L04', 'semantic', IX, "return [label_to_pos[k] + offset for k in key if k in label_to_pos] #type: ignore", "return [label_to_pos[k] + offset for k in key if k not in label_to_pos] #type: ignore", 'partial filter: in -> not in'),
    ('L05', 'semantic', IX, "                return [label_to_pos[k] for k in key if k in label_to_pos]\n", "                return [label_to_pos[k] for k in key]\n", 'partial filter removed (no offset)'),
    ('L06', 'semantic', IX, "        return label_to_pos[key]\n", "        return label_to_pos.get(key)\n", 'element: [] -> .get (None instead of KeyError)'),
    ('L07', 'semantic', IX, "        if is_array or is_list:\n", "        if is_array and is_list:\n", 'list keys fall into the element branch'),
    ('L08', 'semantic', IX, "        is_list = isinstance(key, list)\n", "        is_list = isinstance(key, tuple)\n", 'is_list tests tuple'),
    ('L09', 'semantic', IX, "        if offset_apply:\n            return label_to_pos[key] + offset #type: ignore\n", "        if not offset_apply:\n            return label_to_pos[key] + offset #type: ignore\n", 'element: offset added when NOT offset_apply'),
    ('L10', 'semantic', IX, "            return [label_to_pos[k] for k in key]\n\n        # if a single element", "            return [label_to_pos[k] for k in reversed(key)]\n\n        # if a single element", 'list: reversed order'),
    ('L11', 'semantic', IX, "            if offset_apply:\n                return [label_to_pos[k] + offset for k in key] #type: ignore\n", "            if offset_apply:\n                return [label_to_pos[k] + offset + 1 for k in key] #type: ignore\n", 'list: offset + 1'),
    ('L12', 'skipped', IX, "                key = labels.astype(key.dtype) == key\n", "                key = labels.astype(key.dtype) != key\n", 'inside the np.datetime64 region of loc_to_iloc'),
    # ---- outside the translated region
    ('X01', 'outside', IX, "                    return positions[key] + offset\n", "                    return positions[key] - offset\n", 'Boolean-array branch (ndarray keys: not translated)'),
]

RUNNER = r'''
import json, os, sys
sys.path.insert(0, os.path.join(%(verif)r, 'harness'))
os.environ['SFV_REPO'] = %(scratch)r
import check                                   # puts SFV_REPO first on sys.path
import static_frame
assert os.path.realpath(static_frame.__file__).startswith(os.path.realpath(%(scratch)r)), static_frame.__file__
from sfv import lean
from sfv.props import locmap_grid as lmg
class Ctx:
    tier = 'quick'
    def __init__(self): self.counters = {}
    def count(self, k, n=1): self.counters[k] = self.counters.get(k, 0) + n
ctx = Ctx()
cs = list(lmg.cases(ctx, npstep=True))
lines, spans = [], []
for c in cs:
    ls = lmg.model_lines(c)
    spans.append((len(lines), len(lines) + len(ls)))
    lines += ls
outs = lean.run_driver(lines)
tot = {'keys': 0, 'gen_vs_real': 0, 'hand_vs_real': 0, 'oracle': 0, 'oracle_npstep': 0, 'first': None}
for c, (a, b) in zip(cs, spans):
    for f in lmg.evaluate(ctx, c, outs[a:b]):
        k = 'oracle' if f.kind == 'oracle' else ('gen_vs_real' if f.what.startswith('translated') else 'hand_vs_real')
        if k == 'oracle' and c.get('npstep'):
            k = 'oracle_npstep'          # oracle failures on the np.int64-step keys (0 on the unchanged tree since b8dc316)
        tot[k] += 1
        if k == 'gen_vs_real' and tot['first'] is None:
            tot['first'] = f.what[:300]
tot['keys'] = sum(ctx.counters.get(k, 0) for k in ('lmgrid_keys', 'lmgrid_elem_keys', 'lmgrid_list_keys'))
print('RESULT ' + json.dumps(tot))
'''


def apply(src, old, new, whole=False):
    """mutate `src` (for index.py: inside `class LocMap` only - the anchors need to be unique there, not in the file)"""
    if not whole and 'class LocMap:' in src:
        i = src.index('class LocMap:')
        j = src.index('\ndef ', i)
        return src[:i] + apply(src[i:j], old, new, whole=True) + src[j:]
    if isinstance(old, str):
        if src.count(old) != 1:
            raise SystemExit(f'mutation anchor occurs {src.count(old)} times: {old[:60]!r}')
        return src.replace(old, new)
    ms = list(old.finditer(src))
    if len(ms) != 1:
        raise SystemExit(f'mutation regex matches {len(ms)} times: {old.pattern[:60]!r}')
    return src[:ms[0].start()] + new + src[ms[0].end():]


def lake(targets):
    p = subprocess.run(['lake', 'build'] + targets, cwd=LEAN_DIR, capture_output=True, text=True)
    return p.returncode == 0, p.stdout + p.stderr


def failing_lemmas(log):
    names = set()
    for m in re.finditer(r'error: (SFModel/\S+\.lean):(\d+):', log):
        path, line = os.path.join(LEAN_DIR, m.group(1)), int(m.group(2))
        last = None
        for i, l in enumerate(open(path).read().split('\n'), 1):
            mm = re.match(r'\s*(?:private )?theorem (\S+)', l)
            if mm:
                last = mm.group(1)
            if i >= line:
                break
        names.add(last or f'{m.group(1)}:{line}')
    return sorted(names)


def main():
    ap = argparse.ArgumentParser()
    ap.add_argument('--only', default='')
    ap.add_argument('--no-grid', action='store_true')
    ap.add_argument('--repo', default='/repo')
    ap.add_argument('--md')
    a = ap.parse_args()
    only = set(x for x in a.only.split(',') if x)
    from sfv import lean
    scratch = tempfile.mkdtemp(prefix='locmap_selftest_')
    shutil.copytree(os.path.join(a.repo, 'static_frame'), os.path.join(scratch, 'static_frame'),
                    ignore=shutil.ignore_patterns('__pycache__'))
    orig = {f: open(os.path.join(a.repo, f)).read() for f in (IX, UT)}
    baseline, errs = tr.generate(a.repo)
    if errs:
        raise SystemExit(f'the unchanged source does not translate: {errs}')
    rows = []
    t0 = time.time()
    with lean.Locked():
        saved = open(GEN).read()
        try:
            for mid, kind, path, old, new, what in M:
                if only and mid not in only:
                    continue
                for f in (IX, UT):
                    with open(os.path.join(scratch, f), 'w') as fh:
                        fh.write(apply(orig[f], old, new) if f == path else orig[f])
                text, errors = tr.generate(scratch)
                row = {'id': mid, 'kind': kind, 'what': what, 'translation': '', 'bridge': '-', 'grid': '-', 'detail': ''}
                if errors:
                    row['translation'] = 'rejected'
                    row['detail'] = '; '.join(errors)[:160]
                elif text == baseline:
                    row['translation'] = 'generated unchanged'
                else:
                    row['translation'] = 'generated changed'
                    with open(GEN, 'w') as fh:
                        fh.write(text)
                    ok, log = lake(['SFModel.BridgeLocMap', 'SFModel.Props.C02LocMap'])
                    row['bridge'] = 'passed' if ok else 'FAILED'
                    if not ok:
                        row['detail'] = 'fails: ' + ', '.join(failing_lemmas(log))
                    if not a.no_grid:
                        ok2, log2 = lake(['SFModel.Drv.All'])
                        if not ok2:
                            row['grid'] = 'driver does not build'
                        else:
                            for pyc in ('__pycache__',):
                                shutil.rmtree(os.path.join(scratch, 'static_frame', 'core', pyc), ignore_errors=True)
                            p = subprocess.run([sys.executable, '-c', RUNNER % {'verif': VERIF, 'scratch': scratch}],
                                               capture_output=True, text=True, cwd=scratch)
                            m = re.search(r'RESULT (.*)', p.stdout)
                            if not m:
                                row['grid'] = 'runner failed: ' + (p.stderr.strip().split('\n') or ['?'])[-1][:120]
                            else:
                                r = json.loads(m.group(1))
                                row['grid'] = f'gen!=real {r["gen_vs_real"]}/{r["keys"]}, oracle {r["oracle"]} (+{r["oracle_npstep"]} np-step)'
                                if r['gen_vs_real']:
                                    row['detail'] += ' | ' + (r['first'] or '')
                noticed = row['translation'] == 'rejected' or row['bridge'] == 'FAILED'
                row['noticed'] = noticed
                rows.append(row)
                print(f'{mid} [{kind}] {what}: {row["translation"]}; bridge {row["bridge"]}; grid {row["grid"]} {row["detail"][:140]}', flush=True)
        finally:
            with open(GEN, 'w') as fh:
                fh.write(saved)
            lake(['SFModel.BridgeLocMap', 'SFModel.Props.C02LocMap', 'SFModel.Drv.All'])
            shutil.rmtree(scratch, ignore_errors=True)
    sem = [r for r in rows if r['kind'] == 'semantic']
    missed = [r for r in sem if not r['noticed']]
    unfaithful = [r for r in rows if 'gen!=real' in r['grid'] and not r['grid'].startswith('gen!=real 0/')]
    print(f'\n{len(rows)} mutations in {time.time() - t0:.0f}s: semantic {len(sem)}: rejected {sum(r["translation"] == "rejected" for r in sem)}, '
          f'bridge failed {sum(r["bridge"] == "FAILED" for r in sem)}, UNNOTICED {len(missed)}; '
          f'translations that differ from their own source on the grid: {len(unfaithful)}')
    for r in missed:
        print('UNNOTICED', r['id'], r['what'])
    if a.md:
        with open(a.md, 'w') as fh:
            fh.write('| id | kind | mutation | translation | bridge | grid (mutant as real code) | detail |\n|---|---|---|---|---|---|---|\n')
            for r in rows:
                fh.write(f'| {r["id"]} | {r["kind"]} | {r["what"]} | {r["translation"]} | {r["bridge"]} | {r["grid"]} | {r["detail"][:150].replace("|", "/")} |\n')
    return 1 if missed or unfaithful else 0


if __name__ == '__main__':
    sys.exit(main())
