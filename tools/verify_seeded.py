#!/venv/bin/python
"""Independent confirmation of a seeded change (run before it is kept under seeded/):
  1. demo.py passes on a pristine copy of /repo and fails on the copy with patch.diff applied,
  2. the pinned test suite (BASELINE stable_pass) still passes with the patch.
Writes the outcome into seeded/<id>/meta.json under "confirmed".  Scratch copies live under /var/tmp and are removed."""
import json, os, shutil, subprocess, sys, tempfile
VERIF = os.path.dirname(os.path.dirname(os.path.abspath(__file__)))
sid = sys.argv[1]
skip_suite = '--no-suite' in sys.argv
d = os.path.join(VERIF, 'seeded', sid)
meta = json.load(open(os.path.join(d, 'meta.json')))
td = tempfile.mkdtemp(prefix='sfver_', dir='/var/tmp')
out = {}
try:
    for variant in ('clean', 'patched'):
        repo = os.path.join(td, variant)
        subprocess.run(['rsync', '-a', '--exclude', '.git', '--exclude', '.hypothesis', '/repo/', repo + '/'], check=True)
        if variant == 'patched':
            subprocess.run(['patch', '-p1', '-s', '-d', repo, '-i', os.path.join(d, 'patch.diff')], check=True)
        shutil.copy(os.path.join(d, 'demo.py'), os.path.join(repo, 'demo.py'))
        env = dict(os.environ, PYTHONPATH=repo)
        p = subprocess.run(['/venv/bin/python', 'demo.py'], cwd=repo, env=env, capture_output=True, text=True, timeout=600)
        out[f'demo_{variant}_rc'] = p.returncode
        out[f'demo_{variant}_tail'] = (p.stdout + p.stderr)[-300:]
    if not skip_suite:
        p = subprocess.run(['/venv/bin/python', os.path.join(VERIF, 'tools', 'baseline_check.py'), os.path.join(td, 'patched')], capture_output=True, text=True, timeout=3600)
        out['suite'] = p.stdout.strip().splitlines()[0] if p.stdout.strip() else 'no output'
        out['suite_missing'] = [l.strip() for l in p.stdout.splitlines() if 'MISSING' in l][:10]
finally:
    shutil.rmtree(td, ignore_errors=True)
ok = out['demo_clean_rc'] == 0 and out['demo_patched_rc'] != 0 and (skip_suite or 'missing=0' in out.get('suite', ''))
out['ok'] = ok
meta['confirmed'] = out
json.dump(meta, open(os.path.join(d, 'meta.json'), 'w'), indent=1)
print(('CONFIRMED' if ok else 'NOT-CONFIRMED'), sid, out.get('suite'), 'demo clean rc', out['demo_clean_rc'], 'patched rc', out['demo_patched_rc'])
sys.exit(0 if ok else 1)
