#!/venv/bin/python
"""Self-test of tools/py2lean_reduce.py + lean/SFModel/BridgeReduce.lean (NOT part of the check): small source mutations of
the translated functions (util.ufunc_axis_skipna, util._ufunc_logical_skipna and its wrappers, util._argminmax_1d / _2d, the
module constants they use, the descriptor methods of container.py, the reference table of interface.py) in a scratch copy
of static_frame; for each one

  1. translate the mutated source                       -> `rejected` (TRANSLATION-ERROR), or
  2. compare with the translation of the real source    -> `generated unchanged`, or
  3. put the translation in place, `lake build SFModel.BridgeReduce`
                                                        -> `bridge FAILED` (names the lemmas) | `bridge passed`
  4. rebuild the driver and run the grid of harness/sfv/props/c15_reduce_gen.py with the MUTATED static_frame as the real
     code and the translation OF THE MUTANT in the driver: `gen!=real` counts grid calls where the ROUTE the translation of
     the mutant takes (kernel, array handed over, exception, constant, table entry) differs from what the mutant itself does
     (must be 0: the translator reads the mutant faithfully); `values differing` counts calls where only the VALUE computed
     with the real NumPy kernels differs (a mutant hands the kernels inputs the real source never does - np.nansum of
     objects holding None, np.nanargmin of NaT ... - the kernels are parameters of the model, so these do not count);
     `behaviour` says whether the mutant answers the grid differently from the real source (the mutation is semantic).

Kinds: semantic = changes the behaviour of a translated function (must be rejected or break a bridge lemma);
equivalent = same behaviour (may change the generated text; the bridge must still hold).

usage: selftest_py2lean_reduce.py [--only ID,ID] [--no-grid] [--md out.md]
"""
from __future__ import annotations

import argparse
import hashlib
import json
import os
import re
import shutil
import subprocess
import sys
import tempfile
import time

HERE = os.path.dirname(os.path.abspath(__file__))
VERIF = os.path.dirname(HERE)
sys.path.insert(0, HERE)
sys.path.insert(0, os.path.join(VERIF, 'harness'))
import py2lean_reduce as tr  # noqa: E402

UT, CO, IF = tr.UTIL, tr.CONTAINER, tr.INTERFACE
LEAN_DIR = os.path.join(VERIF, 'lean')
GEN = os.path.join(LEAN_DIR, 'SFModel', 'Gen', 'Reduce.lean')

# (id, kind, file, old, new, what) - `old` must occur exactly once
M = [
    # ---- util.ufunc_axis_skipna
    ('A01', 'semantic', UT, "    if array.dtype.kind == 'O':\n        # replace None with nan", "    if array.dtype.kind == 'U':\n        # replace None with nan", "kind == 'O' -> 'U'"),
    ('A02', 'semantic', UT, "        if skipna:\n            is_not_none = np.not_equal(array, None)", "        if not skipna:\n            is_not_none = np.not_equal(array, None)", 'is_not_none computed when NOT skipna (read unbound)'),
    ('A03', 'semantic', UT, "                if len(v) == 0: # all values were None\n                    return np.nan\n", "", 'early `return np.nan` of the 1-D object path removed (the candidate repair of F40)'),
    ('A04', 'semantic', UT, "                v = array[is_not_none]\n", "                v = array[~is_not_none]\n", '1-D: keeps the None cells'),
    ('A05', 'semantic', UT, "                v[~is_not_none] = np.nan\n", "                v[is_not_none] = np.nan\n", '2-D: NaN written over the present cells'),
    ('A06', 'semantic', UT, "    elif array.dtype.kind == 'M' or array.dtype.kind == 'm':", "    elif array.dtype.kind == 'M' and array.dtype.kind == 'm':", "datetime test: or -> and"),
    ('A07', 'semantic', UT, "        # dates do not support skipna functions\n        return ufunc(array, axis=axis, out=out)", "        # dates do not support skipna functions\n        return ufunc_skipna(array, axis=axis, out=out)", 'datetime route takes the skipna kernel'),
    ('A08', 'semantic', UT, "    elif array.dtype.kind in DTYPE_STR_KINDS and ufunc in UFUNC_AXIS_STR_TO_OBJ:", "    elif array.dtype.kind in DTYPE_STR_KINDS or ufunc in UFUNC_AXIS_STR_TO_OBJ:", 'string route: and -> or'),
    ('A09', 'semantic', UT, "UFUNC_AXIS_STR_TO_OBJ = {np.min, np.max, np.sum}", "UFUNC_AXIS_STR_TO_OBJ = {np.min, np.max}", 'constant UFUNC_AXIS_STR_TO_OBJ loses np.sum'),
    ('A10', 'semantic', UT, "    if skipna:\n        return ufunc_skipna(v, axis=axis, out=out)\n    return ufunc(v, axis=axis, out=out)", "    if not skipna:\n        return ufunc_skipna(v, axis=axis, out=out)\n    return ufunc(v, axis=axis, out=out)", 'final dispatch negated'),
    ('A11', 'semantic', UT, "        return ufunc_skipna(v, axis=axis, out=out)\n    return ufunc(v, axis=axis, out=out)", "        return ufunc_skipna(v, axis=axis, out=out)\n    return ufunc(v, axis=axis)", '`out` no longer passed to ufunc'),
    ('A12', 'semantic', UT, "DTYPE_STR_KINDS = ('U', 'S') # S is np.bytes_", "DTYPE_STR_KINDS = ('U',) # S is np.bytes_", "constant DTYPE_STR_KINDS loses 'S'"),
    ('A13', 'equivalent', UT, "    elif array.dtype.kind == 'M' or array.dtype.kind == 'm':", "    elif array.dtype.kind == 'm' or array.dtype.kind == 'M':", 'datetime test: operands swapped'),
    ('A14', 'semantic', UT, "                v = array.copy() # already an object type\n", "                v = array # already an object type\n", '2-D: writes NaN into the argument array (no copy)'),
    # ---- util._ufunc_logical_skipna and its wrappers
    ('L01', 'semantic', UT, "    if ufunc != np.all and ufunc != np.any:", "    if ufunc != np.all or ufunc != np.any:", 'guard: and -> or (always raises)'),
    ('L02', 'semantic', UT, "        return ufunc == np.all\n", "        return ufunc == np.any\n", 'empty array: identity of the other function'),
    ('L03', 'semantic', UT, "    if kind == 'b':\n        return ufunc(array, axis=axis, out=out)", "    if kind == 'i':\n        return ufunc(array, axis=axis, out=out)", "kind == 'b' -> 'i' (bool arrays fall to `return True`)"),
    ('L04', 'semantic', UT, "        return ufunc(array != '', axis=axis, out=out)", "        return ufunc(array, axis=axis, out=out)", "strings: the `!= ''` test dropped"),
    ('L05', 'semantic', UT, "            fill_value = 0.0 if ufunc == np.any else 1.0", "            fill_value = 1.0 if ufunc == np.any else 0.0", 'float fill values swapped'),
    ('L06', 'semantic', UT, "        hasna = isna.any() # returns single value for 1d, 2d\n        if hasna and skipna:\n            fill_value = 0.0", "        hasna = isna.any() # returns single value for 1d, 2d\n        if hasna or skipna:\n            fill_value = 0.0", 'float: hasna and skipna -> or'),
    ('L07', 'semantic', UT, "            #     return np.nan\n            raise TypeError('cannot propagate NaN without expanding to object array result')\n        return ufunc(array, axis=axis, out=out)", "            #     return np.nan\n            raise ValueError('cannot propagate NaN without expanding to object array result')\n        return ufunc(array, axis=axis, out=out)", 'float: TypeError -> ValueError'),
    ('L08', 'semantic', UT, "        # all dates are truthy, special handling only to propagate NaNs\n        if hasna and not skipna:", "        # all dates are truthy, special handling only to propagate NaNs\n        if hasna and skipna:", 'NaT: raises with skipna instead of without'),
    ('L09', 'semantic', UT, "            fill_value = False if ufunc == np.any else True", "            fill_value = True if ufunc == np.any else False", 'object fill values swapped'),
    ('L10', 'semantic', UT, "            v = v.astype(bool) # nan will be converted to True\n            v[isna] = fill_value\n", "            v = v.astype(bool) # nan will be converted to True\n", 'object: missing cells not filled'),
    ('L11', 'semantic', UT, "    if array.ndim == 1:\n        return True\n", "    if array.ndim == 1:\n        return False\n", 'dates: constant False'),
    ('L12', 'semantic', UT, "array.shape[0 if axis else 1]", "array.shape[1 if axis else 0]", 'np.full over the other dimension'),
    ('L13', 'semantic', UT, "DTYPE_INEXACT_KINDS = (DTYPE_FLOAT_KIND, DTYPE_COMPLEX_KIND)", "DTYPE_INEXACT_KINDS = (DTYPE_FLOAT_KIND,)", "constant DTYPE_INEXACT_KINDS loses 'c'"),
    ('L14', 'semantic', UT, "    return _ufunc_logical_skipna(array,\n            ufunc=np.all,\n            skipna=True,", "    return _ufunc_logical_skipna(array,\n            ufunc=np.all,\n            skipna=False,", 'ufunc_nanall passes skipna=False'),
    ('L15', 'semantic', UT, "    return _ufunc_logical_skipna(array,\n            ufunc=np.any,\n            skipna=False,", "    return _ufunc_logical_skipna(array,\n            ufunc=np.all,\n            skipna=False,", 'ufunc_any passes np.all'),
    ('L16', 'equivalent', UT, "    if kind == 'b':\n        return ufunc(array, axis=axis, out=out)\n    if kind in DTYPE_INT_KINDS:\n        return ufunc(array, axis=axis, out=out)", "    if kind in DTYPE_INT_KINDS:\n        return ufunc(array, axis=axis, out=out)\n    if kind == 'b':\n        return ufunc(array, axis=axis, out=out)", 'bool and int tests in the other order'),
    ('L17', 'semantic', UT, "            v = array.astype(bool)\n        return ufunc(v, axis=axis, out=out)", "            v = array\n        return ufunc(v, axis=axis, out=out)", 'object without missing cells: astype(bool) dropped'),
    # ---- util._argminmax_1d / _argminmax_2d
    ('G01', 'semantic', UT, "    if isna.all():\n        return np.nan\n", "    if isna.any():\n        return np.nan\n", '1-D: all() -> any()'),
    ('G02', 'semantic', UT, "    if isna.any():\n        if not skipna:\n            return np.nan", "    if isna.any():\n        if skipna:\n            return np.nan", '1-D: NaN with skipna instead of without'),
    ('G03', 'semantic', UT, "        return ufunc_skipna(array)\n", "        return ufunc(array)\n", '1-D: plain kernel although a cell is missing'),
    ('G04', 'semantic', UT, "    isna_axis = isna.any(axis=axis)", "    isna_axis = isna.all(axis=axis)", '2-D: axis mask all() instead of any()'),
    ('G05', 'semantic', UT, "    if isna_axis.all(): # nan in every axis remaining position\n        if not skipna:", "    if isna_axis.all(): # nan in every axis remaining position\n        if skipna:", '2-D: full NaN with skipna'),
    ('G06', 'semantic', UT, "            post[isna_axis] = np.nan\n", "", '2-D: the lines with a missing cell are not masked'),
    ('G07', 'semantic', UT, "        post = ufunc_skipna(array, axis=axis)\n", "        post = ufunc(array, axis=axis)\n", '2-D: plain kernel although a cell is missing'),
    ('G08', 'semantic', UT, "argmax_1d = partial(_argminmax_1d, ufunc=np.argmax, ufunc_skipna=np.nanargmax)", "argmax_1d = partial(_argminmax_1d, ufunc=np.argmax, ufunc_skipna=np.nanargmin)", 'argmax_1d pairs np.nanargmin'),
    ('G09', 'semantic', UT, "    if isna_axis.any():\n        # always use skipna", "    if isna_axis.all():\n        # always use skipna", '2-D: second test all() instead of any()'),
    # ---- the descriptor table (container.py), its constants (util.py), the reference table (interface.py)
    ('T01', 'semantic', CO, "                ufunc=np.sum,\n                ufunc_skipna=np.nansum,\n                composable=False,", "                ufunc=np.sum,\n                ufunc_skipna=np.nansum,\n                composable=True,", 'sum: composable=True'),
    ('T02', 'semantic', CO, "                dtypes=DTYPES_BOOL,\n                size_one_unity=False\n", "                dtypes=DTYPES_BOOL,\n                size_one_unity=True\n", 'all: size_one_unity=True'),
    ('T03', 'semantic', CO, "                dtypes=DTYPES_INEXACT, # neads to at least be float, but complex if necessary", "                dtypes=EMPTY_TUPLE, # neads to at least be float, but complex if necessary", 'mean: dtypes=EMPTY_TUPLE'),
    ('T04', 'semantic', CO, "                ufunc_skipna=np.nanmin,", "                ufunc_skipna=np.min,", 'min: ufunc_skipna=np.min'),
    ('T05', 'semantic', CO, "        return self._ufunc_shape_skipna(\n                axis=axis,\n                skipna=skipna,\n                ufunc=np.cumsum,", "        return self._ufunc_axis_skipna(\n                axis=axis,\n                skipna=skipna,\n                ufunc=np.cumsum,", 'cumsum goes through _ufunc_axis_skipna'),
    ('T06', 'semantic', CO, "    def prod(self,\n            axis: int = 0,\n            skipna: bool = True,", "    def prod(self,\n            axis: int = 0,\n            skipna: bool = False,", 'prod: default skipna=False'),
    ('T07', 'semantic', UT, "DTYPES_INEXACT = (DTYPE_FLOAT_DEFAULT, DTYPE_COMPLEX_DEFAULT)", "DTYPES_INEXACT = (DTYPE_FLOAT_DEFAULT,)", 'constant DTYPES_INEXACT loses complex'),
    ('T08', 'semantic', IF, "        'min': UfuncSkipnaAttrs( np.min, np.nanmin),", "        'min': UfuncSkipnaAttrs( np.min, np.nanmax),", 'interface reference table: min pairs np.nanmax'),
    ('T09', 'semantic', CO, "                ufunc=ufunc_all,\n                ufunc_skipna=ufunc_nanall,", "                ufunc=ufunc_all,\n                ufunc_skipna=ufunc_all,", 'all: ufunc_skipna=ufunc_all'),
    ('T10', 'equivalent', CO, "                composable=False, # Block compbinations with overflow and NaNs require this.", "                composable=False, # (comment edited)", 'comment only'),
]

RUNNER = r'''
import hashlib, json, os, sys
sys.path.insert(0, os.path.join(%(verif)r, 'harness'))
os.environ['SFV_REPO'] = %(scratch)r
import check                                   # puts SFV_REPO first on sys.path
import static_frame
assert os.path.realpath(static_frame.__file__).startswith(os.path.realpath(%(scratch)r)), static_frame.__file__
from sfv import lean
from sfv.props import c15_reduce_gen as rgen
ctx = check.Ctx('C15', 'quick', 0)
cs = list(rgen.cases(ctx))
# 1. behaviour of the (mutated) real functions on the grid, without the model
obs = []
import numpy as np, warnings
warnings.simplefilter('ignore')
for c in cs:
    if c['k'] == 'rg_axis':
        arr = rgen.build(c['kind'], c['cells'], c['shape'])
        for sk, uf in rgen.axis_combos(c):
            obs.append(repr(rgen.observe_axis(arr, sk, uf, 0)))
        from static_frame.core.util import ufunc_axis_skipna
        for fn in rgen.val_fns(c['kind']):
            for sk in (True, False):
                try:
                    obs.append(repr(ufunc_axis_skipna(arr, skipna=sk, axis=len(c['shape']) - 1, ufunc=rgen.PAIRS[fn][0], ufunc_skipna=rgen.PAIRS[fn][1], out=None)))
                except Exception as ex:
                    obs.append(type(ex).__name__)
    elif c['k'] == 'rg_logical':
        arr = rgen.build(c['kind'], c['cells'], c['shape'], truth=True)
        for uf, sk, ax in rgen.logical_combos(c):
            obs.append(repr(rgen.observe_logical(arr, uf, sk, ax)))
    elif c['k'] == 'rg_arg':
        from static_frame.core import util
        arr = rgen.arg_array(c)
        for sk in (True, False):
            for f in ((util.argmin_1d, util.argmax_1d) if len(c['shape']) == 1 else (util.argmin_2d, util.argmax_2d)):
                for ax in ((None,) if len(c['shape']) == 1 else (0, 1)):
                    try:
                        obs.append(repr(f(arr, skipna=sk) if ax is None else f(arr, skipna=sk, axis=ax)))
                    except Exception as ex:
                        obs.append(type(ex).__name__)
from static_frame.core.container import ContainerOperand
from static_frame.core import interface, util
class P(ContainerOperand):
    def _ufunc_axis_skipna(self, **kw): return ('axis', sorted((k, rgen.uf_name(v) if callable(v) else repr(v)) for k, v in kw.items()))
    def _ufunc_shape_skipna(self, **kw): return ('shape', sorted((k, rgen.uf_name(v) if callable(v) else repr(v)) for k, v in kw.items()))
for fn in rgen.FNS:
    obs.append(repr(getattr(P(), fn)()))
obs.append(repr([(k, rgen.uf_name(v.ufunc), rgen.uf_name(v.ufunc_skipna)) for k, v in list(interface.UFUNC_AXIS_SKIPNA.items()) + list(interface.UFUNC_SHAPE_SKIPNA.items())]))
for n in ('ufunc_all', 'ufunc_any', 'ufunc_nanall', 'ufunc_nanany'):
    for a in (np.array([1.0, 0.0]), np.array([np.nan, 1.0])):
        try:
            obs.append(repr(getattr(util, n)(a)))
        except Exception as ex:
            obs.append(type(ex).__name__)
for n in ('argmin_1d', 'argmax_1d', 'argmin_2d', 'argmax_2d'):
    obs.append(repr(sorted((k, rgen.uf_name(v)) for k, v in getattr(util, n).keywords.items())))
res = {'behaviour': hashlib.sha1('\n'.join(obs).encode()).hexdigest()}
# 2. the translation of this source (in the driver) against this source
if %(grid)r:
    lines, spans = [], []
    for c in cs:
        ls = rgen.model_lines(c)
        spans.append((len(lines), len(lines) + len(ls)))
        lines += ls
    outs = lean.run_driver(lines)
    tot = {'calls': len(lines), 'gen_vs_real': 0, 'value_level': 0, 'oracle': 0, 'first': None}
    for c, (a, b) in zip(cs, spans):
        try:
            fs = rgen.evaluate(ctx, c, outs[a:b])
        except Exception as ex:
            fs = [check.Failure('corr', 'harness exception %%s: %%s' %% (type(ex).__name__, ex), c)]
        for f in fs:
            if f.kind == 'oracle':
                tot['oracle'] += 1
            elif (f.detail or {}).get('level') == 'value' if isinstance(f.detail, dict) else False:
                tot['value_level'] += 1     # the NumPy kernels on inputs the real source never hands them: not the translator's matter
            else:
                tot['gen_vs_real'] += 1
                if tot['first'] is None:
                    tot['first'] = f.what[:260]
    res.update(tot)
print('RESULT ' + json.dumps(res))
'''


def apply(src, old, new):
    if src.count(old) != 1:
        raise SystemExit(f'mutation anchor occurs {src.count(old)} times: {old[:70]!r}')
    return src.replace(old, new)


def lake(targets):
    p = subprocess.run(['lake', 'build'] + targets, cwd=LEAN_DIR, capture_output=True, text=True)
    return p.returncode == 0, p.stdout + p.stderr


def failing_lemmas(log):
    names = set()
    for m in re.finditer(r'error: (SFModel/\S+\.lean):(\d+):', log):
        path, line = os.path.join(LEAN_DIR, m.group(1)), int(m.group(2))
        last = None
        for i, l in enumerate(open(path).read().split('\n'), 1):
            mm = re.match(r'\s*(?:private )?(?:theorem|example) ?(\S*)', l)
            if mm:
                last = mm.group(1) if mm.group(1) not in ('', ':') else f'example@{i}'
            if i >= line:
                break
        names.add(last or f'{m.group(1)}:{line}')
    return sorted(names)


def run_grid(scratch, grid):
    shutil.rmtree(os.path.join(scratch, 'static_frame', 'core', '__pycache__'), ignore_errors=True)
    p = subprocess.run([sys.executable, '-c', RUNNER % {'verif': VERIF, 'scratch': scratch, 'grid': grid}],
                       capture_output=True, text=True, cwd=scratch, env=dict(os.environ, PYTHONDONTWRITEBYTECODE='1'))
    m = re.search(r'RESULT (.*)', p.stdout)
    if not m:
        return None, (p.stderr.strip().split('\n') or ['?'])[-1][:160]
    return json.loads(m.group(1)), ''


def main():
    ap = argparse.ArgumentParser()
    ap.add_argument('--only', default='')
    ap.add_argument('--no-grid', action='store_true')
    ap.add_argument('--repo', default='/repo')
    ap.add_argument('--md')
    a = ap.parse_args()
    only = set(x for x in a.only.split(',') if x)
    from sfv import lean
    scratch = tempfile.mkdtemp(prefix='reduce_selftest_')
    shutil.copytree(os.path.join(a.repo, 'static_frame'), os.path.join(scratch, 'static_frame'),
                    ignore=shutil.ignore_patterns('__pycache__'))
    orig = {f: open(os.path.join(a.repo, f)).read() for f in (UT, CO, IF)}
    baseline, errs = tr.generate(a.repo)
    if errs:
        raise SystemExit(f'the unchanged source does not translate: {errs}')
    rows = []
    t0 = time.time()
    with lean.Locked():
        saved = open(GEN).read()
        try:
            with open(GEN, 'w') as fh:
                fh.write(baseline)
            ok, log = lake(['SFModel.BridgeReduce', 'SFModel.Drv.All'])
            if not ok:
                raise SystemExit('the bridge does not hold on the unchanged source:\n' + log[-1500:])
            base, err = run_grid(scratch, not a.no_grid)
            if base is None:
                raise SystemExit('the grid does not run on the unchanged source: ' + err)
            print(f'baseline: bridge holds; grid {base}', flush=True)
            for mid, kind, path, old, new, what in M:
                if only and mid not in only:
                    continue
                for f in (UT, CO, IF):
                    with open(os.path.join(scratch, f), 'w') as fh:
                        fh.write(apply(orig[f], old, new) if f == path else orig[f])
                text, errors = tr.generate(scratch)
                row = {'id': mid, 'kind': kind, 'what': what, 'translation': '', 'bridge': '-', 'grid': '-', 'behaviour': '-', 'detail': ''}
                if errors:
                    row['translation'] = 'rejected'
                    row['detail'] = '; '.join(errors)[:170]
                elif text == baseline:
                    row['translation'] = 'generated unchanged'
                else:
                    row['translation'] = 'generated changed'
                if not errors:
                    with open(GEN, 'w') as fh:
                        fh.write(text)
                    if text != baseline:
                        ok, log = lake(['SFModel.BridgeReduce'])
                        row['bridge'] = 'passed' if ok else 'FAILED'
                        if not ok:
                            row['detail'] = 'fails: ' + ', '.join(failing_lemmas(log))
                grid = not a.no_grid and not errors
                if grid:
                    ok2, log2 = lake(['SFModel.Drv.All'])
                    if not ok2:
                        row['grid'] = 'driver does not build'
                        grid = False
                r, err = run_grid(scratch, grid)
                if r is None:
                    row['behaviour'] = 'runner failed: ' + err
                else:
                    row['behaviour'] = 'same as the real source' if r['behaviour'] == base['behaviour'] else 'CHANGED'
                    if grid:
                        row['grid'] = (f'gen!=real {r["gen_vs_real"]}/{r["calls"]}, values differing {r["value_level"]}, '
                                       f'oracle {r["oracle"]} (real source: {base.get("oracle", "-")})')
                        if r['gen_vs_real']:
                            row['detail'] += ' | ' + (r['first'] or '')
                row['noticed'] = row['translation'] == 'rejected' or row['bridge'] == 'FAILED'
                rows.append(row)
                print(f'{mid} [{kind}] {what}: {row["translation"]}; bridge {row["bridge"]}; behaviour {row["behaviour"]}; grid {row["grid"]} '
                      f'{row["detail"][:200]}', flush=True)
        finally:
            with open(GEN, 'w') as fh:
                fh.write(saved)
            lake(['SFModel.BridgeReduce', 'SFModel.Drv.All'])
            shutil.rmtree(scratch, ignore_errors=True)
    sem = [r for r in rows if r['kind'] == 'semantic']
    missed = [r for r in sem if not r['noticed']]
    silent = [r for r in sem if r['behaviour'] == 'same as the real source']
    wrong = [r for r in rows if r['kind'] == 'equivalent' and (r['noticed'] or r['behaviour'] == 'CHANGED')]
    unfaithful = [r for r in rows if 'gen!=real' in r['grid'] and not r['grid'].startswith('gen!=real 0/')]
    print(f'\n{len(rows)} mutations in {time.time() - t0:.0f}s: semantic {len(sem)}: rejected {sum(r["translation"] == "rejected" for r in sem)}, '
          f'bridge failed {sum(r["bridge"] == "FAILED" for r in sem)}, UNNOTICED {len(missed)}; semantic but the grid behaves the same: '
          f'{[r["id"] for r in silent]}; equivalent ones flagged: {[r["id"] for r in wrong]}; '
          f'translations that differ from their own source on the grid: {[r["id"] for r in unfaithful]}')
    for r in missed:
        print('UNNOTICED', r['id'], r['what'])
    if a.md:
        with open(a.md, 'w') as fh:
            fh.write('| id | kind | mutation | translation | bridge | behaviour of the mutant on the grid | grid (mutant as real code, its own translation in the driver) | detail |\n|---|---|---|---|---|---|---|---|\n')
            for r in rows:
                fh.write(f'| {r["id"]} | {r["kind"]} | {r["what"]} | {r["translation"]} | {r["bridge"]} | {r["behaviour"]} | {r["grid"]} | {r["detail"][:170].replace("|", "/")} |\n')
    return 1 if missed or unfaithful or wrong else 0


if __name__ == '__main__':
    sys.exit(main())
