#!/venv/bin/python
"""py2lean_targets - translate `util.slices_from_targets` (the generator behind every directional fill:
candidate slices between the transition positions, the no-op tests, `slice_condition`, the LIMIT TRIMMING
arithmetic) from the *current* static_frame/core/util.py into Lean 4 (lean/SFModel/Gen/Targets.lean).
The bridge lemmas in lean/SFModel/BridgeTargets.lean prove the generated definitions equal the
hand-written mirrored ones of lean/SFModel/NA.lean (`rawSlicesFwd`, `rawSlicesBwd`, `trimSlice`,
`slicesFromTargets`) the C14 theorems are about.  Syntax outside the subset is a TRANSLATION-ERROR (the
generated stub then makes the bridge lemmas fail) - never a guess, never a skip.

Shape expected (anything else is rejected):
    '''docstring'''
    if directional_forward:
        target_slices = (slice(<int>, <int>) for start, stop in <pairs>)
    else:
        target_slices = (slice(<int>, <int>) for start, stop in <pairs>)
    for target_slice, value in zip(target_slices, target_values):
        <body>
  <pairs> (recognised by shape):
    zip_longest(X, X[1:], fillvalue=<int>)   = X zipped with (X[1:] followed by the fill value): X[1:] is one shorter
    zip(chain(ELEMENT_TUPLE, X[:-1]), X)     = (None, then X without its last) zipped with X; ELEMENT_TUPLE = (None,)
                                               is re-read from the source; `start` is then Optional
  <body>: `assert <slice field> is not None and ...` (skipped: both fields are ints by construction),
    `if / elif / else`, `continue`, `<name> = <int expr>`, `target_slice = slice(<int>, <int>)`,
    `yield target_slice, value` (at most one per pass, last statement on its path)
  tests: int comparisons, `directional_forward`, `slice_condition(target_slice)`, `and` / `or` / `not`
  <int expr>: constants, `limit`, `length`, locals, `target_slice.start` / `.stop`, `+ - *`, unary `-`,
    conditional expressions (`x is not None` / `x is None` on an Optional pair component becomes a `match`),
    `a or b` on ints (`a` if it is not 0, else `b`),
    `len(range(*target_slice.indices(length)))` = the number of positions the slice addresses in a sequence of
    `length` entries (`WindowSem.sliceWindow`: CPython PySlice_AdjustIndices with step 1)
Semantics trusted: ints unbounded; `zip` stops at the shorter iterable; `length >= 0` (`.indices` of a negative
length is a ValueError: outside the model); `slice_condition` returns a bool.

usage: py2lean_targets.py [--repo /repo] [--out lean/SFModel/Gen] [--stdout]
"""
from __future__ import annotations

import argparse
import ast
import os
import sys
import textwrap

PATH = 'static_frame/core/util.py'
NAME = 'slices_from_targets'
PARAMS = ['target_index', 'target_values', 'length', 'directional_forward', 'limit', 'slice_condition']
RESERVED = {'some', 'none', 'match', 'with', 'if', 'then', 'else', 'let', 'fun', 'def', 'do', 'at', 'have', 'show', 'end', 'open', 'in',
            'from', 'by', 'where', 'Type', 'Int', 'Nat', 'List', 'Option', 'true', 'false', 'min', 'max'}


class TranslationError(Exception):
    pass


def ind(s, n=2):
    return textwrap.indent(s, ' ' * n)


def src_of(node, limit=90):
    return ast.unparse(node).split('\n')[0][:limit]


class Tr:
    def __init__(self):
        self.counter = 0

    def fresh(self, base):
        self.counter += 1
        return f'{base}_{self.counter}'

    # env: name -> (term, type) with type in 'Int', 'OptInt', 'Bool', 'Cond', 'Slice' (term = (a, b))
    def int_expr(self, e, env, k):
        """CPS (an Optional component forces a match): k(term, env)"""
        if isinstance(e, ast.Constant):
            if isinstance(e.value, bool) or not isinstance(e.value, int):
                raise TranslationError(f'constant {e.value!r} where an integer is expected')
            return k(f'({e.value} : Int)', env)
        if isinstance(e, ast.Name):
            t, ty = self.lookup(e.id, env)
            if ty == 'Nat':
                return k(f'({t} : Int)', env)
            if ty != 'Int':
                raise TranslationError(f'{e.id} is {ty}, an integer is expected')
            return k(t, env)
        if isinstance(e, ast.Attribute) and isinstance(e.value, ast.Name) and e.attr in ('start', 'stop'):
            t, ty = self.lookup(e.value.id, env)
            if ty != 'Slice':
                raise TranslationError(f'{src_of(e)}: {e.value.id} is {ty}')
            return k(t[0] if e.attr == 'start' else t[1], env)
        if isinstance(e, ast.UnaryOp) and isinstance(e.op, ast.USub):
            return self.int_expr(e.operand, env, lambda a, e1: k(f'(-{a})', e1))
        if isinstance(e, ast.BinOp):
            sym = {ast.Add: '+', ast.Sub: '-', ast.Mult: '*'}.get(type(e.op))
            if sym is None:
                raise TranslationError(f'operator outside subset: {src_of(e)}')
            return self.int_expr(e.left, env, lambda a, e1: self.int_expr(e.right, e1, lambda b, e2: k(f'({a} {sym} {b})', e2)))
        if isinstance(e, ast.BoolOp) and isinstance(e.op, ast.Or) and len(e.values) == 2:
            # `a or b` on ints: a if a is truthy (not 0) else b
            return self.int_expr(e.values[0], env, lambda a, e1: self.int_expr(e.values[1], e1, lambda b, e2: k(f'(if {a} ≠ 0 then {a} else {b})', e2)))
        if isinstance(e, ast.IfExp):
            return self.cond(e.test, env, lambda et: self.int_expr(e.body, et, k), lambda ef: self.int_expr(e.orelse, ef, k), expr=True)
        if self.is_slice_len(e, env):
            a, b = env[e.args[0].args[0].value.func.value.id][0]
            return k(f'(((WindowSem.sliceWindow {a} {b} length).2 : Nat) : Int)', env)
        raise TranslationError(f'integer expression outside subset: {src_of(e)}')

    def is_slice_len(self, e, env):
        """len(range(*<slice>.indices(length)))"""
        try:
            r = e.args[0]
            star = r.args[0]
            call = star.value
            return (isinstance(e, ast.Call) and e.func.id == 'len' and len(e.args) == 1 and not e.keywords
                    and isinstance(r, ast.Call) and r.func.id == 'range' and len(r.args) == 1 and not r.keywords
                    and isinstance(star, ast.Starred) and isinstance(call, ast.Call) and call.func.attr == 'indices'
                    and env.get(call.func.value.id, (None, None))[1] == 'Slice' and len(call.args) == 1 and not call.keywords
                    and isinstance(call.args[0], ast.Name) and call.args[0].id == 'length' and env['length'][1] == 'Nat'
                    and 'len' not in env and 'range' not in env)
        except (AttributeError, IndexError, KeyError):
            return False

    def lookup(self, name, env):
        if name not in env:
            raise TranslationError(f'{name} is unknown or may be unbound here')
        return env[name]

    def cond(self, test, env, kt, kf, expr=False):
        if isinstance(test, ast.BoolOp):
            vals = test.values

            def go(i, env_i):
                if i == len(vals) - 1:
                    return self.cond(vals[i], env_i, kt, kf, expr)
                if isinstance(test.op, ast.Or):
                    return self.cond(vals[i], env_i, kt, lambda ef: go(i + 1, ef), expr)
                return self.cond(vals[i], env_i, lambda et: go(i + 1, et), kf, expr)
            return go(0, env)
        if isinstance(test, ast.UnaryOp) and isinstance(test.op, ast.Not):
            return self.cond(test.operand, env, kf, kt, expr)

        def ite(c, a, b):
            return f'(if {c} then {a} else {b})' if expr else f'if {c} then\n{ind(a)}\nelse\n{ind(b)}'
        if isinstance(test, ast.Compare) and len(test.ops) == 1:
            op, left, right = test.ops[0], test.left, test.comparators[0]
            if isinstance(op, (ast.Is, ast.IsNot)) and isinstance(right, ast.Constant) and right.value is None and isinstance(left, ast.Name):
                t, ty = self.lookup(left.id, env)
                yes, no = (kt, kf) if isinstance(op, ast.Is) else (kf, kt)
                if ty == 'Int':
                    return no(env)
                if ty != 'OptInt':
                    raise TranslationError(f'{src_of(test)}: {left.id} is {ty}')
                v = self.fresh(left.id)
                es = dict(env)
                es[left.id] = (v, 'Int')
                en = dict(env)
                en.pop(left.id)       # None: not an integer on this path
                if expr:
                    return f'(match {t} with | none => {yes(en)} | some {v} => {no(es)})'
                return f'match {t} with\n| none =>\n{ind(yes(en))}\n| some {v} =>\n{ind(no(es))}'
            sym = {ast.Lt: '<', ast.LtE: '≤', ast.Gt: '>', ast.GtE: '≥', ast.Eq: '=', ast.NotEq: '≠'}.get(type(op))
            if sym is None:
                raise TranslationError(f'comparison outside subset: {src_of(test)}')
            return self.int_expr(left, env, lambda a, e1: self.int_expr(right, e1, lambda b, e2: ite(f'{a} {sym} {b}', kt(dict(e2)), kf(dict(e2)))))
        if isinstance(test, ast.Name):
            t, ty = self.lookup(test.id, env)
            if ty != 'Bool':
                raise TranslationError(f'truthiness of {test.id} ({ty}) outside subset')
            return ite(f'{t} = true', kt(dict(env)), kf(dict(env)))
        if isinstance(test, ast.Call) and isinstance(test.func, ast.Name) and len(test.args) == 1 and not test.keywords \
                and isinstance(test.args[0], ast.Name):
            f, fty = self.lookup(test.func.id, env)
            s, sty = self.lookup(test.args[0].id, env)
            if fty != 'Cond' or sty != 'Slice':
                raise TranslationError(f'call outside subset: {src_of(test)}')
            return ite(f'{f} {s[0]} {s[1]} = true', kt(dict(env)), kf(dict(env)))
        raise TranslationError(f'test outside subset: {src_of(test)}')

    def slice_value(self, e, env, k):
        """slice(<int>, <int>): k((a, b), env)"""
        if not (isinstance(e, ast.Call) and isinstance(e.func, ast.Name) and e.func.id == 'slice' and 'slice' not in env
                and len(e.args) == 2 and not e.keywords and not any(isinstance(a, ast.Starred) for a in e.args)):
            raise TranslationError(f'only slice(start, stop) of two integers: {src_of(e)}')
        return self.int_expr(e.args[0], env, lambda a, e1: self.int_expr(e.args[1], e1, lambda b, e2: k((a, b), e2)))

    def block(self, stmts, env, yielded):
        """the value of one pass: `none` (nothing yielded) or `some (start, stop)`"""
        if not stmts:
            return 'none' if yielded is None else f'some ({yielded[0]}, {yielded[1]})'
        s, rest = stmts[0], stmts[1:]
        if yielded is not None:
            raise TranslationError(f'statement after the yield: {src_of(s)}')
        if isinstance(s, ast.Assert) and s.msg is None and self.is_not_none_assert(s.test, env):
            return self.block(rest, env, yielded)
        if isinstance(s, ast.Continue):
            return 'none'
        if isinstance(s, ast.If):
            return self.cond(s.test, env, lambda et: self.block(list(s.body) + rest, et, yielded),
                             lambda ef: self.block(list(s.orelse) + rest, ef, yielded))
        if isinstance(s, ast.Assign) and len(s.targets) == 1 and isinstance(s.targets[0], ast.Name):
            name = s.targets[0].id
            if name in PARAMS or name in RESERVED or name == 'value':
                raise TranslationError(f'assignment to {name}: {src_of(s)}')
            if isinstance(s.value, ast.Call) and isinstance(s.value.func, ast.Name) and s.value.func.id == 'slice':
                if env.get(name, (None, 'Slice'))[1] != 'Slice':
                    raise TranslationError(f'{src_of(s)}: {name} is {env[name][1]}')

                def bind_slice(ab, e2):
                    a, b = self.fresh(name + '_start'), self.fresh(name + '_stop')
                    e3 = dict(e2)
                    e3[name] = ((a, b), 'Slice')
                    return f'let {a} := {ab[0]}\nlet {b} := {ab[1]}\n' + self.block(rest, e3, yielded)
                return self.slice_value(s.value, env, bind_slice)
            if env.get(name, (None, 'Int'))[1] != 'Int':
                raise TranslationError(f'{src_of(s)}: {name} is {env[name][1]}')

            def bind(t, e2):
                ln = self.fresh(name)
                e3 = dict(e2)
                e3[name] = (ln, 'Int')
                return f'let {ln} := {t}\n' + self.block(rest, e3, yielded)
            return self.int_expr(s.value, env, bind)
        if isinstance(s, ast.Expr) and isinstance(s.value, ast.Yield):
            v = s.value.value
            if not (isinstance(v, ast.Tuple) and len(v.elts) == 2 and all(isinstance(x, ast.Name) for x in v.elts)
                    and v.elts[1].id == 'value' and self.lookup(v.elts[0].id, env)[1] == 'Slice'):
                raise TranslationError(f'yield outside subset: {src_of(s)}')
            return self.block(rest, env, env[v.elts[0].id][0])
        raise TranslationError(f'statement outside subset: {src_of(s)}')

    def is_not_none_assert(self, t, env):
        if isinstance(t, ast.BoolOp) and isinstance(t.op, ast.And):
            return all(self.is_not_none_assert(v, env) for v in t.values)
        return (isinstance(t, ast.Compare) and len(t.ops) == 1 and isinstance(t.ops[0], ast.IsNot)
                and isinstance(t.comparators[0], ast.Constant) and t.comparators[0].value is None
                and isinstance(t.left, ast.Attribute) and t.left.attr in ('start', 'stop') and isinstance(t.left.value, ast.Name)
                and env.get(t.left.value.id, (None, None))[1] == 'Slice')


def pairs(node, consts):
    """the iterable of (start, stop) pairs: (lean term over `target_index` / `length`, type of `start`)"""
    u = ast.unparse(node).replace(' ', '')
    if u == 'zip_longest(target_index,target_index[1:],fillvalue=length)':
        return '(target_index.zip (target_index.drop 1 ++ [(length : Int)]))', 'Int'
    if u == 'zip(chain(ELEMENT_TUPLE,target_index[:-1]),target_index)':
        if consts.get('ELEMENT_TUPLE') != '(None,)':
            raise TranslationError(f'ELEMENT_TUPLE is {consts.get("ELEMENT_TUPLE")}, the translator assumes (None,)')
        return '((none :: target_index.dropLast.map some).zip target_index)', 'OptInt'
    raise TranslationError(f'iterable of pairs outside subset: {src_of(node)}')


def translate(src):
    tree = ast.parse(src)
    consts = {n.targets[0].id: ast.unparse(n.value) for n in tree.body
              if isinstance(n, ast.Assign) and len(n.targets) == 1 and isinstance(n.targets[0], ast.Name)}
    imports = {a.asname or a.name: f'{n.module}.{a.name}' for n in tree.body if isinstance(n, ast.ImportFrom) for a in n.names}
    for fn_name in ('chain', 'zip_longest'):
        if imports.get(fn_name) != f'itertools.{fn_name}' or fn_name in consts:
            raise TranslationError(f'{fn_name} is not itertools.{fn_name}')
    fns = [n for n in tree.body if isinstance(n, ast.FunctionDef) and n.name == NAME]
    if len(fns) != 1:
        raise TranslationError(f'function {NAME} not found')
    fn = fns[0]
    a = fn.args
    if [x.arg for x in a.args] != PARAMS or a.posonlyargs or a.kwonlyargs or a.vararg or a.kwarg or a.defaults or fn.decorator_list:
        raise TranslationError(f'parameters {[x.arg for x in a.args]} differ from expected {PARAMS}')
    body = [s for s in fn.body if not (isinstance(s, ast.Expr) and isinstance(s.value, ast.Constant) and isinstance(s.value.value, str))]
    if len(body) != 2 or not isinstance(body[0], ast.If) or not isinstance(body[1], ast.For):
        raise TranslationError('shape outside subset: `if directional_forward: target_slices = ... else: ...` then one `for`')
    sel, loop = body
    if not (isinstance(sel.test, ast.Name) and sel.test.id == 'directional_forward'):
        raise TranslationError(f'selector of the candidate slices: {src_of(sel.test)}')
    tr = Tr()
    raw = []
    for arm, nm in ((sel.body, 'fwd'), (sel.orelse, 'bwd')):
        if not (len(arm) == 1 and isinstance(arm[0], ast.Assign) and len(arm[0].targets) == 1 and isinstance(arm[0].targets[0], ast.Name)
                and arm[0].targets[0].id == 'target_slices' and isinstance(arm[0].value, ast.GeneratorExp)):
            raise TranslationError(f'candidate slices ({nm}) outside subset: {src_of(arm[0]) if arm else "<empty>"}')
        g = arm[0].value
        if len(g.generators) != 1 or g.generators[0].ifs or g.generators[0].is_async \
                or ast.unparse(g.generators[0].target).replace(' ', '') not in ('start,stop', '(start,stop)'):
            raise TranslationError(f'generator expression outside subset: {src_of(g)}')
        it, start_ty = pairs(g.generators[0].iter, consts)
        env = {'start': ('start', start_ty), 'stop': ('stop', 'Int'), 'length': ('length', 'Nat')}
        elt = tr.slice_value(g.elt, env, lambda ab, e2: f'({ab[0]}, {ab[1]})')
        raw.append((nm, it, 'Option Int' if start_ty == 'OptInt' else 'Int', elt))
    if not (ast.unparse(loop.target).replace(' ', '') in ('target_slice,value', '(target_slice,value)')
            and ast.unparse(loop.iter).replace(' ', '') == 'zip(target_slices,target_values)' and not loop.orelse):
        raise TranslationError(f'loop outside subset: for {src_of(loop.target)} in {src_of(loop.iter)}')
    for node in ast.walk(loop):
        if isinstance(node, (ast.Break, ast.Return, ast.While, ast.Try, ast.With, ast.Raise, ast.NamedExpr, ast.Lambda, ast.YieldFrom, ast.AugAssign,
                             ast.Delete, ast.Global, ast.Nonlocal)) or (isinstance(node, ast.For) and node is not loop):
            raise TranslationError(f'statement outside subset: {src_of(node)}')
    env = {'target_slice': (('start', 'stop'), 'Slice'), 'length': ('length', 'Nat'), 'directional_forward': ('directional_forward', 'Bool'),
           'limit': ('limit', 'Int'), 'slice_condition': ('slice_condition', 'Cond')}
    body_text = tr.block(list(loop.body), env, None)
    out = []
    for nm, it, sty, elt in raw:
        out.append(f'/-- the candidate slice of one pair of `{"zip_longest(target_index, target_index[1:], fillvalue=length)" if nm == "fwd" else "zip(chain((None,), target_index[:-1]), target_index)"}` -/')
        out.append(f'def slices_from_targets_{nm} (length : Nat) (start : {sty}) (stop : Int) : Int × Int :=\n{ind(elt)}\n')
    out.append('/-- `target_slices` -/')
    out.append('def slices_from_targets_raw (target_index : List Int) (length : Nat) (directional_forward : Bool) : List (Int × Int) :=\n'
               '  if directional_forward = true then\n'
               f'    {raw[0][1]}.map fun p => slices_from_targets_fwd length p.1 p.2\n'
               '  else\n'
               f'    {raw[1][1]}.map fun p => slices_from_targets_bwd length p.1 p.2\n')
    out.append('/-- one pass of `for target_slice, value in zip(target_slices, target_values)`: the slice yielded, `none` = nothing -/')
    out.append('def slices_from_targets_body (length : Nat) (directional_forward : Bool) (limit : Int) (slice_condition : Int → Int → Bool) '
               f'(start stop : Int) : Option (Int × Int) :=\n{ind(body_text)}\n')
    out.append(MAIN)
    return '\n'.join(out)


MAIN = '''/-- `list(slices_from_targets(...))` -/
def slices_from_targets {β : Type} (target_index : List Int) (target_values : List β) (length : Nat) (directional_forward : Bool)
    (limit : Int) (slice_condition : Int → Int → Bool) : List ((Int × Int) × β) :=
  ((slices_from_targets_raw target_index length directional_forward).zip target_values).filterMap fun sv =>
    (slices_from_targets_body length directional_forward limit slice_condition sv.1.1 sv.1.2).map fun s => (s, sv.2)
'''

STUBS = '''def slices_from_targets_fwd (length : Nat) (start : Int) (stop : Int) : Int × Int := (0, 0)
def slices_from_targets_bwd (length : Nat) (start : Option Int) (stop : Int) : Int × Int := (0, 0)
def slices_from_targets_raw (target_index : List Int) (length : Nat) (directional_forward : Bool) : List (Int × Int) := []
def slices_from_targets_body (length : Nat) (directional_forward : Bool) (limit : Int) (slice_condition : Int → Int → Bool) (start stop : Int) : Option (Int × Int) := none
def slices_from_targets {β : Type} (target_index : List Int) (target_values : List β) (length : Nat) (directional_forward : Bool)
    (limit : Int) (slice_condition : Int → Int → Bool) : List ((Int × Int) × β) := []
'''


def generate(repo):
    head = ['-- GENERATED by tools/py2lean_targets.py from the current static_frame/core/util.py; do not edit.',
            'import SFModel.WindowSem', '', 'set_option linter.unusedVariables false', '', 'namespace SF.Gen.Targets', 'open SF', '',
            f'-- {PATH} :: {NAME}']
    errors = []
    try:
        body = translate(open(os.path.join(repo, PATH)).read())
    except (TranslationError, SyntaxError, OSError, RecursionError) as ex:
        errors.append(f'{NAME}: {ex}')
        body = '-- TRANSLATION FAILED: ' + str(ex).replace('\n', ' ') + '\n' + STUBS
    return '\n'.join(head) + '\n' + body + '\nend SF.Gen.Targets\n', errors


def main():
    ap = argparse.ArgumentParser()
    ap.add_argument('--repo', default='/repo')
    ap.add_argument('--out', default=os.path.join(os.path.dirname(os.path.dirname(os.path.abspath(__file__))), 'lean', 'SFModel', 'Gen'))
    ap.add_argument('--stdout', action='store_true')
    a = ap.parse_args()
    text, errors = generate(a.repo)
    if a.stdout:
        sys.stdout.write(text)
        for e in errors:
            print('py2lean_targets: TRANSLATION-ERROR', e, file=sys.stderr)
        return 1 if errors else 0
    os.makedirs(a.out, exist_ok=True)
    target = os.path.join(a.out, 'Targets.lean')
    old = open(target).read() if os.path.exists(target) else None
    if old != text:
        with open(target, 'w') as f:
            f.write(text)
        print(f'py2lean_targets: wrote {target}')
    else:
        print('py2lean_targets: unchanged')
    for e in errors:
        print('py2lean_targets: TRANSLATION-ERROR', e)
    return 1 if errors else 0


if __name__ == '__main__':
    sys.exit(main())
