#!/usr/bin/env python3
"""add the history of a detection (what the check lacked when it first missed the change) to seeded/<id>/meta.json
usage: annotate_seeded.py notes.json   ({"m99": "note", ...}); re-runs nothing"""
import glob, json, os, sys
VERIF = os.path.dirname(os.path.dirname(os.path.abspath(__file__)))
notes = json.load(open(sys.argv[1]))
for k, note in notes.items():
    ds = glob.glob(os.path.join(VERIF, 'seeded', k + '_*'))
    if not ds:
        print('not stored yet:', k); continue
    p = os.path.join(ds[0], 'meta.json')
    m = json.load(open(p))
    c = m.setdefault('caught', {})
    key = m['property'] + ' quick'
    cur = c.get(key, '')
    if note in cur:
        continue
    if cur.startswith('MISSED'):
        print('still recorded as MISSED, re-run run_seeded --record first:', k); continue
    c[key] = (cur or 'CAUGHT') + ' [' + note + ']'
    json.dump(m, open(p, 'w'), indent=1)
    print('annotated', k)
