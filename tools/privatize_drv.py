#!/usr/bin/env python3
"""Make helper definitions of driver modules `private` (all Drv/*.lean share the namespace SF.Drv, so
helper names clash).  Modules whose helpers are imported by other driver modules are left public."""
import os, re, sys
VERIF = os.path.dirname(os.path.dirname(os.path.abspath(__file__)))
d = os.path.join(VERIF, 'lean', 'SFModel', 'Drv')
files = [f for f in os.listdir(d) if f.endswith('.lean') and f != 'All.lean']
imported = set()
for f in files:
    for m in re.finditer(r'^import SFModel\.Drv\.(\w+)', open(os.path.join(d, f)).read(), re.M):
        imported.add(m.group(1))
for f in files:
    name = f[:-5]
    if name in imported:
        continue
    ops = name[0].lower() + name[1:] + 'Ops'
    p = os.path.join(d, f)
    s = open(p).read()
    s2 = re.sub(r'^(?!private )((?:partial )?(?:def|abbrev|structure|inductive) )(\S+)',
                lambda m: m.group(0) if m.group(2) == ops else 'private ' + m.group(0), s, flags=re.M)
    if s2 != s:
        open(p, 'w').write(s2)
        print('privatized', f)
