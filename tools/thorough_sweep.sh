#!/bin/bash
# clean-tree run of the thorough tier of the given properties (builds first); prints alarms
props=${@:-"C01 C02 C03 C04 C05 C06 C07 C08 C09 C10 C11 C12 C13 C14 C15 C16 C17 C18 C19 C20"}
python3 tools/gen_drv_all.py && for t in py2lean py2lean_dtype py2lean_locmap py2lean_window py2lean_targets; do /venv/bin/python tools/$t.py >/dev/null; done; (cd lean && lake build SFModel 2>&1 | tail -1)
for p in $props; do
  out=$(timeout 7200 /venv/bin/python harness/check.py $p --tier thorough 2>&1); rc=$?
  if [ $rc -ne 0 ]; then echo "=== ALARM $p thorough rc=$rc"; echo "$out" | grep -v "conda\|KNOWN-FINDING" | tail -8 | cut -c1-600; else echo "ok $p thorough $(echo "$out" | tail -1 | grep -o 'wall=[0-9.]*s')"; fi
done
