#!/venv/bin/python
"""Development aid: run a property's cases and print failures grouped by kind/op (no build, no evidence)."""
import sys, os, collections, importlib
HERE = os.path.join(os.path.dirname(os.path.dirname(os.path.abspath(__file__))), 'harness')
sys.path.insert(0, HERE); sys.path.insert(0, '/repo')
import check
prop = sys.argv[1].upper(); tier = sys.argv[2] if len(sys.argv) > 2 else 'quick'; seed = int(sys.argv[3]) if len(sys.argv) > 3 else 0
mod = importlib.import_module(f'sfv.props.{prop.lower()}')
ctx = check.Ctx(prop, tier, seed); ctx.budget_s = 600
fails = check.run_cases(ctx, mod, mod.cases(ctx))
groups = collections.defaultdict(list)
for f in fails:
    key = (f.kind, f.finding, (f.case.get('op') if isinstance(f.case, dict) else None))
    groups[key].append(f)
for k, fs in sorted(groups.items(), key=lambda kv: str(kv[0])):
    print(k, len(fs))
    for f in fs[:int(os.environ.get('N', 2))]:
        print('    ', f.what[:int(os.environ.get('W', 400))])
print('evaluations', ctx.evaluations, 'failures', len(fails))
