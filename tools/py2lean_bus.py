#!/venv/bin/python
"""py2lean_bus - translate the cache / LRU bookkeeping of static-frame's Bus
(`Bus._update_series_cache_iloc`, static_frame/core/bus.py) from the *current* source into Lean 4
(lean/SFModel/Gen/Bus.lean): a state transformer over the attributes of the Bus the function writes
(`BusSem.Obj`: `_loaded`, `_loaded_all`, the keys of `_last_accessed` in order, the cells of `_series`) for a
key given as the positions it addresses (`BusSem.IKey`: an integer = element key, anything else = array key).
lean/SFModel/BridgeBus.lean proves the generated definitions equal the hand-mirrored ones of
lean/SFModel/Bus.lean (`loopBody`, `loopRun`, `BusSt.updateCache`, `BusSt.extractIloc`, `BusSt.step` - the
definitions the C17 theorems are about), so a semantic edit of the function breaks a proof obligation, and syntax
outside the subset below is a TRANSLATION-ERROR (the generated stub then makes the bridge lemmas fail) - never a
guess, never skipped silently.

What comes from the source text: every branch and its order, every comparison operator and constant, the order of
the statements (in particular: store read / LRU touch / flag update / eviction inside the loop), the order in which
loops visit their items, which attribute or local each statement reads and writes, what is done before a `raise` /
an exception of a primitive and what after (an exception returns the object as mutated SO FAR: `_loaded` and
`_last_accessed` are mutated in place, `_series` and `_loaded_all` are re-bound by their assignments).

Result: `update_series_cache_iloc env self key : Except (Err × Obj φ) (Obj φ)`  (+ one body / loop function per `for`
loop and value of "max_persist is None": `…_loop<k>_body_mpNone|mpSome`, `…_loop<k>_mpNone|mpSome`).

Subset (trusted semantics = lean/SFModel/BusSem.lean, cross-checked on a grid on every C17 run):
  * path-sensitive typing: the first use of `self._max_persist` splits into `match env.max_persist` (None | an int),
    the first use of `key` that depends on its kind (`isinstance(key, INT_TYPES)`, `<index>.iloc[key]`, `<index>[key]`,
    `self._series.iloc[key]`) into `match key` (element p | array ps); in each arm tests on them are constants,
    `isinstance(<result of self._series.iloc[key]>, Series)` is "the key is not an integer".  `self._last_accessed`
    exists only when max_persist is not None (reading it in the other arm is rejected).
  * values: Python bool (constants are folded per path, otherwise a Lean `Bool`), int (`Int`, unbounded), None,
    labels and positions (`Nat`), the Boolean array `self._loaded` (`x[pos]`, `x[key]`, `.all()`, `.sum()`,
    `x[pos] = True|False`), object arrays (`self._series.values`, `.copy()`, `x[pos] = <cell>`; a cell is a Frame or the
    class FrameDeferred: `Option φ`; writing into an array that is not a copy is rejected), the index (`self._series.index`,
    `._index`: `.iloc[key]`, `[key]`, `.values`, `._loc_to_iloc(label)`), the Series `self._series` (`.iloc[key]`,
    `.items()`), the dict `self._last_accessed` (`d[k] = None`, `d[k] = d.pop(k2, None)`, `d.pop(k, None)`, `d.pop(k)`,
    `del d[k]`, `next(iter(d))`, `next(reversed(d))`, `k, _ = d.popitem()`, `len(d)`, `k in d`; it is a plain dict: OrderedDict's
    `move_to_end` / `popitem(last=...)` would raise and are rejected), tuples of labels / of (label, cell) pairs, generators of frames (below), `self._store` (`is None`).
  * generators of frames: `(self._store.read(<label>, config=self._config[<the same label>]) for _ in range(<n>))` and
    `self._store_reader(store=self._store, config=self._config, labels=(<l> for <l>, <f> in <series>.items() if <f> is
    [not] FrameDeferred), max_persist=self._max_persist)`; `next(g)` = `BusSem.Reader.next`.  The store is abstract:
    `env.store_read label` / `env.reader_next label` return a frame or raise.
  * statements: `x = e`, `x += e` / `x -= e` (ints), `if / elif / else` (short-circuit `and` / `or` / `not`; the continuation
    is duplicated in both arms), conditional expressions, `for <label> in <labels>` / `for <label>, <cell> in <pairs>` (no
    break / continue / return / else inside; the locals a loop re-binds are threaded through it; names first bound inside are
    local to a pass), `try: <one for loop> finally: <statements>` (no handlers; the finally block runs on the object and the threaded
    locals as the loop left them, completed or interrupted, then the exception goes on), `pass`, bare `return`, `raise <Exc>(<string>)`, `del d[k]`, and the assignments `self._loaded_all = <bool>`,
    `self._series = Series(<object array>, index=<the index>, dtype=object, own_index=True)`.
  * data-only statements (abstracted; exact shapes): the docstring, `<object array>.flags.writeable = False`.
  * typing assumptions (cross-checked on the grid): `key` is an integer or a key that addresses each of its positions once, given as
    those positions (a repeated position makes `self._series.iloc[key]` / `index.iloc[key]` raise ErrorInitIndexNonUnique before
    anything is mutated; the model's `extractIloc` refuses such keys before the cache update); labels are unique.
  * exceptions: IndexError / KeyError -> `.lookup`, StopIteration / RuntimeError / others named in EXC -> see EXC; what the
    store raises is `env.store_read` / `env.reader_next`'s business.

usage: py2lean_bus.py [--repo /repo] [--out lean/SFModel/Gen] [--check] [--stdout]
"""
from __future__ import annotations

import argparse
import ast
import os
import sys
import textwrap

PATH = 'static_frame/core/bus.py'
CLASS = 'Bus'
NAME = '_update_series_cache_iloc'
FN = 'update_series_cache_iloc'
EXC = {'RuntimeError': 'other', 'ValueError': 'value', 'TypeError': 'value', 'IndexError': 'lookup', 'KeyError': 'lookup',
       'StopIteration': 'other', 'NotImplementedError': 'other', 'ErrorInitBus': 'init'}
# the bridge lemmas are stated for these loops (number in source order, arm) and the locals threaded through them
EXPECT_LOOPS = {
    (1, 'mpSome'): ('labels', []),
    (2, 'mpNone'): ('pairs', ['array', 'store_reader']),
    (2, 'mpSome'): ('pairs', ['array', 'loaded_count', 'store_reader']),
}
LEAN_TY = {'cells': 'List (Option φ)', 'int': 'Int', 'reader': 'Reader', 'bool': 'Bool', 'label': 'Nat', 'pos': 'Nat',
           'cell': 'Option φ', 'labels': 'List Nat', 'labelarr': 'List Nat', 'pairs': 'List (Nat × Option φ)', 'series': 'List (Nat × Option φ)',
           'boolsel': 'List Bool', 'boolarr': 'List Bool', 'odict': 'List Nat', 'next-of-reader': 'φ × Reader'}
RESERVED = {'some', 'none', 'match', 'with', 'if', 'then', 'else', 'let', 'fun', 'def', 'do', 'at', 'have', 'show', 'end', 'open', 'in',
            'from', 'by', 'where', 'Type', 'Int', 'Nat', 'List', 'Option', 'true', 'false', 'env', 'self', 'key', 'max_persist',
            'e_', 'rest_', 'item_', 'p_', 'ps_'}


class TranslationError(Exception):
    pass


def ind(s, n=2):
    return textwrap.indent(s, ' ' * n)


def src_of(node, limit=100):
    return ast.unparse(node).split('\n')[0][:limit]


class Val:
    __slots__ = ('term', 'ty', 'raises', 'const', 'owned', 'field', 'via')

    def __init__(self, term, ty, raises=False, const=None, owned=False, field=None, via=None):
        self.term, self.ty, self.raises, self.const, self.owned, self.field, self.via = term, ty, raises, const, owned, field, via


HIDDEN = Val(None, 'hidden')


class Env:
    def __init__(self, vars=None, selfterm='self', facts=None, where='main', carried=()):
        self.vars = dict(vars or {})
        self.selfterm = selfterm
        self.facts = dict(facts or {'mp': None, 'key': None})
        self.where = where
        self.carried = tuple(carried)     # in a loop body: the locals threaded through the loop (an exception reports them too)

    def copy(self):
        return Env(self.vars, self.selfterm, self.facts, self.where, self.carried)

    def payload(self):
        """what an exception raised here leaves behind: the object and, in a loop body, the threaded locals, as mutated so far"""
        if not self.carried:
            return self.selfterm
        return '(' + ', '.join([self.selfterm] + [self.vars[n].term for n in self.carried]) + ')'


class Translator:
    def __init__(self, fn):
        self.fn = fn
        self.counter = 0
        self.defs = {}              # (loop id, tag) -> (body text, loop text, signature info)
        self.def_order = []
        self.loops = [n for n in ast.walk(fn) if isinstance(n, ast.For)]
        self.loops.sort(key=lambda n: (n.lineno, n.col_offset))
        self.data_stmts = []

    def fresh(self, base):
        self.counter += 1
        return f'{base}_{self.counter}'

    # ------------------------------------------------------------------ helpers
    def err(self, exc, env):
        if exc not in EXC:
            raise TranslationError(f'exception class outside subset: {exc}')
        return f'.error (.{EXC[exc]}, {env.payload()})'

    def bind(self, val, pat, env, rest):
        """`match <raising term> with | .error e_ => .error (e_, self) | .ok pat => rest`"""
        return (f'match {val.term} with\n| .error e_ => .error (e_, {env.payload()})\n| .ok {pat} =>\n{ind(rest)}')

    @staticmethod
    def lift(v):
        return v.term if v.raises else f'(.ok {v.term})'

    def map_raising(self, v, fn, ty):
        """apply a pure function text -> text under a possibly raising value"""
        if not v.raises:
            return Val(fn(v.term), ty)
        x = self.fresh('v')
        return Val(f'((match {v.term} with | .error e_ => .error e_ | .ok {x} => .ok ({fn(x)})) : Except Err ({LEAN_TY[ty]}))', ty, raises=True)

    def lookup(self, name, env, node=None):
        if name not in env.vars or env.vars[name].ty == 'hidden':
            raise TranslationError(f'{name} is unknown, may be unbound or is not available here' + (f': {src_of(node)}' if node is not None else ''))
        return env.vars[name]

    @staticmethod
    def is_self_attr(e, attr=None):
        return isinstance(e, ast.Attribute) and isinstance(e.value, ast.Name) and e.value.id == 'self' and (attr is None or e.attr == attr)

    # ------------------------------------------------------------------ forced splits
    def split_needed(self, s, env):
        exprs = []
        if isinstance(s, ast.Assign):
            exprs = [s.value] + list(s.targets)
        elif isinstance(s, ast.AnnAssign):
            exprs = [x for x in (s.value, s.target) if x is not None]
        elif isinstance(s, ast.AugAssign):
            exprs = [s.value, s.target]
        elif isinstance(s, ast.If):
            exprs = [s.test]
        elif isinstance(s, ast.For):
            exprs = [s.iter]
            if env.facts['mp'] is None:
                return 'mp'             # loop bodies are specialised to "max_persist is None" / "is an int"
        elif isinstance(s, (ast.Expr, ast.Return)):
            exprs = [s.value] if s.value is not None else []
        elif isinstance(s, ast.Delete):
            exprs = list(s.targets)
        for e in exprs:
            for n in ast.walk(e):
                if env.facts['mp'] is None and (self.is_self_attr(n, '_max_persist') or self.is_self_attr(n, '_last_accessed')):
                    return 'mp'
        for e in exprs:
            if env.facts['key'] is None and self.key_kind_used(e, env):
                return 'key'
        return None

    def key_kind_used(self, e, env):
        """does evaluating `e` depend on the kind of `key` (anything but `self._loaded[key]`)"""
        if 'key' not in env.vars or env.vars['key'].ty != 'key':
            return False
        ok_nodes = set()
        for n in ast.walk(e):
            if isinstance(n, ast.Subscript) and self.is_self_attr(n.value, '_loaded') and isinstance(n.slice, ast.Name) and n.slice.id == 'key':
                ok_nodes.add(id(n.slice))
        return any(isinstance(n, ast.Name) and n.id == 'key' and id(n) not in ok_nodes for n in ast.walk(e))

    # ------------------------------------------------------------------ expressions
    def expr(self, e, env):
        if isinstance(e, ast.Constant):
            if e.value is True or e.value is False:
                return Val('true' if e.value else 'false', 'bool', const=e.value)
            if e.value is None:
                return Val(None, 'none')
            if isinstance(e.value, int):
                return Val(f'({e.value} : Int)', 'int')
            raise TranslationError(f'constant outside subset: {src_of(e)}')
        if isinstance(e, ast.Name):
            if e.id == 'FrameDeferred' and e.id not in env.vars:
                return Val('none', 'cell', const='deferred')
            return self.lookup(e.id, env, e)
        if isinstance(e, ast.Attribute):
            return self.attribute(e, env)
        if isinstance(e, ast.Subscript):
            return self.subscript(e, env)
        if isinstance(e, ast.Call):
            return self.call(e, env)
        if isinstance(e, ast.Tuple):
            return self.tuple_(e, env)
        if isinstance(e, ast.GeneratorExp):
            return self.genexp(e, env)
        if isinstance(e, ast.IfExp):
            c = self.test_const(e.test, env)
            if c is not None:
                return self.expr(e.body if c else e.orelse, env)
            t = self.bool_term(e.test, env)
            a, b = self.expr(e.body, env), self.expr(e.orelse, env)
            if a.ty != b.ty:
                raise TranslationError(f'conditional expression of two types ({a.ty}, {b.ty}): {src_of(e)}')
            if a.ty not in ('bool', 'int', 'labels', 'label', 'pairs', 'cell'):
                raise TranslationError(f'conditional expression of type {a.ty} outside subset: {src_of(e)}')
            if a.raises or b.raises:
                return Val(f'((if {t} = true then {self.lift(a)} else {self.lift(b)}) : Except Err ({LEAN_TY[a.ty]}))', a.ty, raises=True)
            return Val(f'(if {t} = true then {a.term} else {b.term})', a.ty)
        if isinstance(e, ast.UnaryOp) and isinstance(e.op, ast.Not):
            c = self.test_const(e, env)
            if c is not None:
                return Val('true' if c else 'false', 'bool', const=c)
            v = self.expr(e.operand, env)
            if v.ty != 'bool':
                raise TranslationError(f'`not` of {v.ty}: {src_of(e)}')
            return self.map_raising(v, lambda t: f'(!{t})', 'bool')
        if isinstance(e, ast.UnaryOp) and isinstance(e.op, ast.USub):
            v = self.expr(e.operand, env)
            if v.ty != 'int' or v.raises:
                raise TranslationError(f'negation outside subset: {src_of(e)}')
            return Val(f'(-{v.term})', 'int')
        if isinstance(e, ast.BinOp):
            sym = {ast.Add: '+', ast.Sub: '-', ast.Mult: '*'}.get(type(e.op))
            a, b = self.expr(e.left, env), self.expr(e.right, env)
            if sym is None or a.ty != 'int' or b.ty != 'int' or a.raises or b.raises:
                raise TranslationError(f'arithmetic outside subset: {src_of(e)}')
            return Val(f'({a.term} {sym} {b.term})', 'int')
        if isinstance(e, (ast.BoolOp, ast.Compare)):
            c = self.test_const(e, env)
            if c is not None:
                return Val('true' if c else 'false', 'bool', const=c)
            return Val(self.bool_term(e, env), 'bool')
        raise TranslationError(f'expression outside subset: {src_of(e)}')

    def attribute(self, e, env):
        if self.is_self_attr(e):
            a = e.attr
            s = env.selfterm
            if a == '_max_persist':
                if env.facts['mp'] == 'none':
                    return Val(None, 'none')
                if env.facts['mp'] == 'some':
                    return Val('(max_persist : Int)', 'int')
                raise TranslationError('internal: self._max_persist before the split')
            if a == '_loaded_all':
                return Val(f'{s}.loaded_all', 'bool')
            if a == '_loaded':
                return Val(f'{s}.loaded', 'boolarr', field='loaded')
            if a == '_last_accessed':
                if env.facts['mp'] != 'some':
                    raise TranslationError('self._last_accessed is read where max_persist may be None (the attribute does not exist then)')
                return Val(f'{s}.last_accessed', 'odict', field='last_accessed')
            if a == '_series':
                return Val(None, 'seriesobj')
            if a == '_store':
                return Val(None, 'store')
            if a == '_config':
                return Val(None, 'config')
            raise TranslationError(f'attribute of the Bus outside subset: {src_of(e)}')
        v = self.expr(e.value, env)
        if v.ty == 'seriesobj' and e.attr in ('index', '_index'):
            return Val('env.index', 'index')
        if v.ty == 'seriesobj' and e.attr == 'values':
            return Val(f'{env.selfterm}.series', 'cells', owned=False)
        if v.ty == 'labelarr' and e.attr == 'values':
            return Val(v.term, 'labels', raises=v.raises)
        raise TranslationError(f'attribute outside subset: {src_of(e)} (of {v.ty})')

    def key_val(self, node, env):
        if not (isinstance(node, ast.Name) and node.id == 'key' and env.vars.get('key', HIDDEN).ty == 'key'):
            return None
        if env.facts['key'] not in ('element', 'array'):
            raise TranslationError(f'internal: the kind of key is not known here')
        return env.facts['key']

    def subscript(self, e, env):
        # <index>.iloc[key] / self._series.iloc[key]
        if isinstance(e.value, ast.Attribute) and e.value.attr == 'iloc':
            base = self.expr(e.value.value, env)
            kind = self.key_val(e.slice, env)
            if kind is None:
                raise TranslationError(f'.iloc[...] with something else than key: {src_of(e)}')
            if base.ty == 'index':
                if kind == 'element':
                    return Val('arrGet env.index p_', 'label', raises=True)
                return Val('arrTake env.index ps_', 'labelarr', raises=True)
            if base.ty == 'seriesobj':
                if kind == 'element':
                    return Val(f'arrGet {env.selfterm}.series p_', 'cell', raises=True, via='iloc-element')
                return Val(f'seriesTake env.index {env.selfterm}.series ps_', 'series', raises=True)
            raise TranslationError(f'.iloc of {base.ty}: {src_of(e)}')
        base = self.expr(e.value, env)
        if base.raises:
            raise TranslationError(f'subscript of a raising expression: {src_of(e)}')
        if base.ty == 'index':
            kind = self.key_val(e.slice, env)
            if kind == 'element':
                return Val('arrGet env.index p_', 'label', raises=True)
            raise TranslationError(f'<index>[...] outside subset: {src_of(e)}')
        if base.ty == 'boolarr':
            if isinstance(e.slice, ast.Name) and e.slice.id == 'key' and env.vars.get('key', HIDDEN).ty == 'key':
                return Val(f'arrTake {base.term} (IKey.positions key)', 'boolsel', raises=True)
            i = self.expr(e.slice, env)
            if i.ty != 'pos' or i.raises:
                raise TranslationError(f'<Boolean array>[{i.ty}] outside subset: {src_of(e)}')
            return Val(f'arrGet {base.term} {i.term}', 'bool', raises=True)
        if base.ty == 'cells':
            i = self.expr(e.slice, env)
            if i.ty != 'pos' or i.raises:
                raise TranslationError(f'<object array>[{i.ty}] outside subset: {src_of(e)}')
            return Val(f'arrGet {base.term} {i.term}', 'cell', raises=True)
        raise TranslationError(f'subscript outside subset: {src_of(e)} (of {base.ty})')

    def call(self, e, env):
        f = e.func
        if any(isinstance(a, ast.Starred) for a in e.args) or any(k.arg is None for k in e.keywords):
            raise TranslationError(f'call outside subset: {src_of(e)}')
        if isinstance(f, ast.Name) and f.id not in env.vars:
            if f.id == 'isinstance' and len(e.args) == 2 and not e.keywords:
                c = self.test_const(e, env)
                return Val('true' if c else 'false', 'bool', const=c)
            if f.id == 'next' and len(e.args) == 1 and not e.keywords:
                a = e.args[0]
                if isinstance(a, ast.Call) and isinstance(a.func, ast.Name) and a.func.id in ('iter', 'reversed') and len(a.args) == 1 and not a.keywords:
                    d = self.expr(a.args[0], env)
                    if d.ty != 'odict':
                        raise TranslationError(f'next({a.func.id}(...)) of {d.ty}: {src_of(e)}')
                    return Val(f'{"odFirst" if a.func.id == "iter" else "odLast"} {d.term}', 'label', raises=True)
                if isinstance(a, ast.Name) and self.lookup(a.id, env, e).ty == 'reader':
                    return Val(f'Reader.next env {self.lookup(a.id, env).term}', 'next-of-reader', raises=True, via=a.id)
                raise TranslationError(f'next(...) outside subset: {src_of(e)}')
            if f.id == 'len' and len(e.args) == 1 and not e.keywords:
                d = self.expr(e.args[0], env)
                if d.ty == 'odict':
                    return Val(f'odLen {d.term}', 'int')
                raise TranslationError(f'len of {d.ty}: {src_of(e)}')
            raise TranslationError(f'call outside subset: {src_of(e)}')
        if isinstance(f, ast.Attribute):
            if self.is_self_attr(f, '_store_reader'):
                return self.store_reader_call(e, env)
            base = self.expr(f.value, env)
            m = f.attr
            if base.ty == 'cells' and m == 'copy' and not e.args and not e.keywords:
                return Val(base.term, 'cells', raises=base.raises, owned=True)
            if base.ty in ('boolarr', 'boolsel') and m == 'all' and not e.args and not e.keywords:
                return self.map_raising(base, lambda t: f'boolAll {t}', 'bool')
            if base.ty == 'bool' and base.raises and m == 'all' and not e.args and not e.keywords:     # np.bool_.all()
                return base
            if base.ty == 'boolarr' and m == 'sum' and not e.args and not e.keywords:
                return Val(f'boolSum {base.term}', 'int')
            if base.ty == 'index' and m == '_loc_to_iloc' and len(e.args) == 1 and not e.keywords:
                l = self.expr(e.args[0], env)
                if l.ty != 'label' or l.raises:
                    raise TranslationError(f'_loc_to_iloc of {l.ty}: {src_of(e)}')
                return Val(f'locToIloc env.index {l.term}', 'pos', raises=True)
            if base.ty == 'series' and m == 'items' and not e.args and not e.keywords:
                return Val(base.term, 'pairs', raises=base.raises)
            raise TranslationError(f'method call outside subset: {src_of(e)} (on {base.ty})')
        raise TranslationError(f'call outside subset: {src_of(e)}')

    def store_reader_call(self, e, env):
        kws = {k.arg: k.value for k in e.keywords}
        if e.args or set(kws) != {'store', 'config', 'labels', 'max_persist'}:
            raise TranslationError(f'self._store_reader call outside subset: {src_of(e)}')
        if not (self.is_self_attr(kws['store'], '_store') and self.is_self_attr(kws['config'], '_config')
                and self.is_self_attr(kws['max_persist'], '_max_persist')):
            raise TranslationError(f'self._store_reader is not handed the store / config / max_persist of the Bus: {src_of(e)}')
        labels = self.expr(kws['labels'], env)
        if labels.ty != 'labels' or labels.raises:
            raise TranslationError(f'labels handed to self._store_reader outside subset: {src_of(kws["labels"])}')
        return Val(f'(Reader.mk {labels.term} true)', 'reader')

    def tuple_(self, e, env):
        vals = [self.expr(x, env) for x in e.elts]
        if any(v.raises for v in vals[:-1]) and len(vals) > 1:
            raise TranslationError(f'tuple of several raising expressions: {src_of(e)}')
        if vals and all(v.ty == 'label' for v in vals):
            if len(vals) == 1:
                return self.map_raising(vals[0], lambda t: f'[{t}]', 'labels')
            if any(v.raises for v in vals):
                raise TranslationError(f'tuple outside subset: {src_of(e)}')
            return Val('[' + ', '.join(v.term for v in vals) + ']', 'labels')
        if len(vals) == 2 and vals[0].ty == 'label' and vals[1].ty == 'cell' and not any(v.raises for v in vals):
            return Val(f'({vals[0].term}, {vals[1].term})', 'pair')
        if vals and all(v.ty == 'pair' for v in vals):
            return Val('[' + ', '.join(v.term for v in vals) + ']', 'pairs')
        raise TranslationError(f'tuple outside subset: {src_of(e)} ({[v.ty for v in vals]})')

    def genexp(self, e, env):
        if len(e.generators) != 1 or e.generators[0].is_async:
            raise TranslationError(f'generator expression outside subset: {src_of(e)}')
        g = e.generators[0]
        # (self._store.read(label, config=self._config[label]) for _ in range(n))
        if isinstance(g.iter, ast.Call) and isinstance(g.iter.func, ast.Name) and g.iter.func.id == 'range' and 'range' not in env.vars:
            if len(g.iter.args) != 1 or g.iter.keywords or not isinstance(g.iter.args[0], ast.Constant) or type(g.iter.args[0].value) is not int \
                    or g.iter.args[0].value < 0 or g.ifs or not isinstance(g.target, ast.Name):
                raise TranslationError(f'generator expression outside subset: {src_of(e)}')
            n = g.iter.args[0].value
            c = e.elt
            if not (isinstance(c, ast.Call) and isinstance(c.func, ast.Attribute) and c.func.attr == 'read' and self.is_self_attr(c.func.value, '_store')
                    and len(c.args) == 1 and isinstance(c.args[0], ast.Name) and len(c.keywords) == 1 and c.keywords[0].arg == 'config'):
                raise TranslationError(f'generator expression outside subset: {src_of(e)}')
            cfg = c.keywords[0].value
            lab = c.args[0].id
            if lab == g.target.id:
                raise TranslationError(f'generator expression outside subset: {src_of(e)}')
            if not (isinstance(cfg, ast.Subscript) and self.is_self_attr(cfg.value, '_config') and isinstance(cfg.slice, ast.Name) and cfg.slice.id == lab):
                raise TranslationError(f'the store is not read with the configuration of the label read: {src_of(c)}')
            l = self.lookup(lab, env, e)
            if l.ty != 'label' or l.raises:
                raise TranslationError(f'{lab} is {l.ty}, a label is expected: {src_of(e)}')
            return Val(f'(Reader.mk (List.replicate {n} {l.term}) false)', 'reader')
        # (l for l, f in <series>.items() if f is [not] FrameDeferred)
        it = self.expr(g.iter, env)
        if it.ty != 'pairs' or it.raises:
            raise TranslationError(f'generator expression over {it.ty} outside subset: {src_of(e)}')
        if not (isinstance(g.target, ast.Tuple) and len(g.target.elts) == 2 and all(isinstance(x, ast.Name) for x in g.target.elts)):
            raise TranslationError(f'generator expression outside subset: {src_of(e)}')
        a, b = (x.id for x in g.target.elts)
        if a == b or not (isinstance(e.elt, ast.Name) and e.elt.id == a):
            raise TranslationError(f'generator expression outside subset (the label of each pair is expected): {src_of(e)}')
        term = it.term
        for t in g.ifs:
            if not (isinstance(t, ast.Compare) and len(t.ops) == 1 and isinstance(t.left, ast.Name) and t.left.id == b
                    and isinstance(t.comparators[0], ast.Name) and t.comparators[0].id == 'FrameDeferred' and 'FrameDeferred' not in env.vars
                    and isinstance(t.ops[0], (ast.Is, ast.IsNot))):
                raise TranslationError(f'filter of a generator expression outside subset: {src_of(t)}')
            pred = 'lf_.2.isNone' if isinstance(t.ops[0], ast.Is) else 'lf_.2.isSome'
            term = f'({term}.filter fun lf_ => {pred})'
        return Val(f'({term}.map fun lf_ => lf_.1)', 'labels')

    # ------------------------------------------------------------------ tests
    def test_const(self, t, env):
        """compile-time value of a test on this path (True / False) or None"""
        if isinstance(t, ast.Constant) and (t.value is True or t.value is False):
            return t.value
        if isinstance(t, ast.Name) and t.id in env.vars and env.vars[t.id].ty == 'bool' and env.vars[t.id].const is not None:
            return env.vars[t.id].const
        if isinstance(t, ast.UnaryOp) and isinstance(t.op, ast.Not):
            c = self.test_const(t.operand, env)
            return None if c is None else (not c)
        if isinstance(t, ast.BoolOp):
            stop = isinstance(t.op, ast.Or)        # the value that decides
            for v in t.values:
                c = self.test_const(v, env)
                if c is stop:
                    return stop
                if c is None and not self.is_pure_test(v, env):
                    return None                    # something before the deciding operand may raise
            if all(self.test_const(v, env) is (not stop) for v in t.values):
                return not stop
            return None
        if isinstance(t, ast.Compare) and len(t.ops) == 1 and isinstance(t.ops[0], (ast.Is, ast.IsNot)):
            r = t.comparators[0]
            neg = isinstance(t.ops[0], ast.IsNot)
            if isinstance(r, ast.Constant) and r.value is None and self.is_self_attr(t.left, '_max_persist') and env.facts['mp'] is not None:
                return (env.facts['mp'] == 'none') != neg
            return None
        if isinstance(t, ast.Call) and isinstance(t.func, ast.Name) and t.func.id == 'isinstance' and 'isinstance' not in env.vars \
                and len(t.args) == 2 and not t.keywords and isinstance(t.args[0], ast.Name) and isinstance(t.args[1], ast.Name):
            x, cls = t.args[0].id, t.args[1].id
            v = env.vars.get(x, HIDDEN)
            if v.ty == 'key' and cls == 'INT_TYPES' and cls not in env.vars and env.facts['key'] in ('element', 'array'):
                return env.facts['key'] == 'element'
            if cls == 'Series' and cls not in env.vars and v.ty == 'series':
                return True
            if cls == 'Series' and cls not in env.vars and v.ty == 'cell' and v.via == 'iloc-element':
                return False          # Series.iloc[int] is the element (a Frame or FrameDeferred), never a Series
            raise TranslationError(f'isinstance test outside subset: {src_of(t)}')
        return None

    def is_pure_test(self, t, env):
        """a test whose evaluation neither raises nor has effects"""
        if isinstance(t, ast.Constant):
            return True
        if isinstance(t, ast.Name):
            return t.id in env.vars and env.vars[t.id].ty == 'bool'
        if isinstance(t, ast.UnaryOp) and isinstance(t.op, ast.Not):
            return self.is_pure_test(t.operand, env)
        if isinstance(t, ast.BoolOp):
            return all(self.is_pure_test(v, env) for v in t.values)
        if isinstance(t, ast.Compare):
            try:
                return all(not self.expr(x, env).raises for x in [t.left] + list(t.comparators))
            except TranslationError:
                return False
        if self.is_self_attr(t, '_loaded_all'):
            return True
        return False

    def compare_prop(self, t, env):
        """a comparison of two ints / labels / positions as a decidable Lean proposition"""
        if len(t.ops) != 1:
            raise TranslationError(f'chained comparison: {src_of(t)}')
        sym = {ast.Lt: '<', ast.LtE: '≤', ast.Gt: '>', ast.GtE: '≥', ast.Eq: '=', ast.NotEq: '≠'}.get(type(t.ops[0]))
        a, b = self.expr(t.left, env), self.expr(t.comparators[0], env)
        if sym is None:
            if isinstance(t.ops[0], (ast.In, ast.NotIn)) and a.ty == 'label' and b.ty == 'odict' and not a.raises:
                return ('' if isinstance(t.ops[0], ast.In) else '¬ ') + f'{a.term} ∈ {b.term}'
            raise TranslationError(f'comparison outside subset: {src_of(t)}')
        if a.raises or b.raises or a.ty != b.ty or a.ty not in ('int', 'label', 'pos') or (a.ty != 'int' and sym not in ('=', '≠')):
            raise TranslationError(f'comparison outside subset: {src_of(t)} ({a.ty} vs {b.ty})')
        return f'{a.term} {sym} {b.term}'

    def bool_term(self, t, env):
        """a pure test as a Lean Bool term (no narrowing)"""
        c = self.test_const(t, env)
        if c is not None:
            return 'true' if c else 'false'
        if isinstance(t, ast.BoolOp):
            sym = ' && ' if isinstance(t.op, ast.And) else ' || '
            return '(' + sym.join(self.bool_term(v, env) for v in t.values) + ')'
        if isinstance(t, ast.UnaryOp) and isinstance(t.op, ast.Not):
            return f'(!{self.bool_term(t.operand, env)})'
        if isinstance(t, ast.Compare):
            if len(t.ops) == 1 and isinstance(t.ops[0], (ast.Is, ast.IsNot)):
                r = t.comparators[0]
                neg = isinstance(t.ops[0], ast.IsNot)
                l = self.expr(t.left, env)
                if isinstance(r, ast.Constant) and r.value is None and l.ty == 'store':
                    return f'({"" if neg else "!"}env.store_defined)'
                if isinstance(r, ast.Name) and r.id == 'FrameDeferred' and 'FrameDeferred' not in env.vars and l.ty == 'cell' and not l.raises:
                    return f'({l.term}).{"isSome" if neg else "isNone"}'
                raise TranslationError(f'identity test outside subset: {src_of(t)}')
            return f'(decide ({self.compare_prop(t, env)}))'
        v = self.expr(t, env)
        if v.ty != 'bool' or v.raises:
            raise TranslationError(f'test outside subset (truthiness of {v.ty}{", raising" if v.raises else ""}): {src_of(t)}')
        return v.term

    def cond(self, test, env, kt, kf):
        """statement-level test: short-circuit, constants folded, narrowing of `x is FrameDeferred`"""
        c = self.test_const(test, env)
        if c is not None:
            return kt(env) if c else kf(env)
        if isinstance(test, ast.BoolOp):
            vals = test.values

            def go(i, env_i):
                if i == len(vals) - 1:
                    return self.cond(vals[i], env_i, kt, kf)
                if isinstance(test.op, ast.Or):
                    return self.cond(vals[i], env_i, kt, lambda ef: go(i + 1, ef))
                return self.cond(vals[i], env_i, lambda et: go(i + 1, et), kf)
            return go(0, env)
        if isinstance(test, ast.UnaryOp) and isinstance(test.op, ast.Not):
            return self.cond(test.operand, env, kf, kt)
        if isinstance(test, ast.Compare) and len(test.ops) == 1 and isinstance(test.ops[0], (ast.Is, ast.IsNot)):
            r = test.comparators[0]
            neg = isinstance(test.ops[0], ast.IsNot)
            if isinstance(r, ast.Name) and r.id == 'FrameDeferred' and 'FrameDeferred' not in env.vars and isinstance(test.left, ast.Name):
                v = self.lookup(test.left.id, env, test)
                if v.ty != 'cell' or v.raises:
                    raise TranslationError(f'`is FrameDeferred` of {v.ty}: {src_of(test)}')
                if v.const == 'deferred':
                    return (kf if neg else kt)(env)
                if v.const == 'frame':
                    return (kt if neg else kf)(env)
                x = self.fresh(test.left.id)
                e_none, e_some = env.copy(), env.copy()
                e_none.vars[test.left.id] = Val('none', 'cell', const='deferred', via=v.via)
                e_some.vars[test.left.id] = Val(f'(some {x})', 'cell', const='frame', via=v.via)
                k_none, k_some = (kf, kt) if neg else (kt, kf)
                return f'match {v.term} with\n| none =>\n{ind(k_none(e_none))}\n| some {x} =>\n{ind(k_some(e_some))}'
            t = self.bool_term(test, env)
            return f'if {t} = true then\n{ind(kt(env.copy()))}\nelse\n{ind(kf(env.copy()))}'
        if isinstance(test, ast.Compare):
            return f'if {self.compare_prop(test, env)} then\n{ind(kt(env.copy()))}\nelse\n{ind(kf(env.copy()))}'
        v = self.expr(test, env)
        if v.ty != 'bool':
            raise TranslationError(f'test outside subset (truthiness of {v.ty}): {src_of(test)}')
        if v.raises:
            x = self.fresh('t')
            return self.bind(v, x, env, f'if {x} = true then\n{ind(kt(env.copy()))}\nelse\n{ind(kf(env.copy()))}')
        return f'if {v.term} = true then\n{ind(kt(env.copy()))}\nelse\n{ind(kf(env.copy()))}'

    # ------------------------------------------------------------------ statements
    def block(self, stmts, env, k):
        if not stmts:
            return k(env)
        s, rest = stmts[0], stmts[1:]
        sp = self.split_needed(s, env)
        if sp == 'mp':
            e1, e2 = env.copy(), env.copy()
            e1.facts['mp'], e2.facts['mp'] = 'none', 'some'
            return (f'match env.max_persist with\n| none =>\n{ind(self.block(stmts, e1, k))}\n'
                    f'| some max_persist =>\n{ind(self.block(stmts, e2, k))}')
        if sp == 'key':
            e1, e2 = env.copy(), env.copy()
            e1.facts['key'], e2.facts['key'] = 'element', 'array'
            return (f'match key with\n| .element p_ =>\n{ind(self.block(stmts, e1, k))}\n'
                    f'| .array ps_ =>\n{ind(self.block(stmts, e2, k))}')

        def cont(e):
            return self.block(rest, e, k)

        if isinstance(s, ast.Expr) and isinstance(s.value, ast.Constant) and isinstance(s.value.value, str):
            return cont(env)
        if isinstance(s, ast.Pass):
            return cont(env)
        if isinstance(s, ast.AnnAssign) and isinstance(s.target, ast.Name) and s.value is not None and s.simple:
            s = ast.copy_location(ast.Assign(targets=[ast.Name(id=s.target.id, ctx=ast.Store())], value=s.value), s)
        if isinstance(s, ast.Assign):
            if len(s.targets) != 1:
                raise TranslationError(f'chained assignment: {src_of(s)}')
            t = s.targets[0]
            if isinstance(t, ast.Name):
                return self.assign_name(t.id, s.value, s, env, cont)
            if isinstance(t, ast.Subscript):
                return self.assign_subscript(t, s.value, s, env, cont)
            if isinstance(t, ast.Attribute):
                return self.assign_attribute(t, s.value, s, env, cont)
            if isinstance(t, ast.Tuple):
                return self.assign_tuple(t, s.value, s, env, cont)
            raise TranslationError(f'assignment outside subset: {src_of(s)}')
        if isinstance(s, ast.AugAssign):
            sym = {ast.Add: '+', ast.Sub: '-'}.get(type(s.op))
            if sym is None or not isinstance(s.target, ast.Name):
                raise TranslationError(f'augmented assignment outside subset: {src_of(s)}')
            cur = self.lookup(s.target.id, env, s)
            v = self.expr(s.value, env)
            if cur.ty != 'int' or v.ty != 'int' or v.raises:
                raise TranslationError(f'augmented assignment outside subset: {src_of(s)} ({cur.ty}, {v.ty})')
            ln = self.fresh(s.target.id)
            e2 = env.copy()
            e2.vars[s.target.id] = Val(ln, 'int')
            return f'let {ln} := ({cur.term} {sym} {v.term})\n' + cont(e2)
        if isinstance(s, ast.If):
            return self.cond(s.test, env,
                             lambda et: self.block(list(s.body) + rest, et, k),
                             lambda ef: self.block(list(s.orelse) + rest, ef, k))
        if isinstance(s, ast.For):
            return self.for_loop(s, env, cont)
        if isinstance(s, ast.Try):
            # try: <one for loop> finally: <statements>   (no handlers, no else): the finally block runs on the state the loop left -
            # completed or interrupted by an exception - and an exception goes on afterwards with the object as the block left it
            if s.handlers or s.orelse or not s.finalbody or len(s.body) != 1 or not isinstance(s.body[0], ast.For) or env.where != 'main':
                raise TranslationError(f'try statement outside subset (try: <for loop> finally: ...): {src_of(s)}')
            for n in s.finalbody:
                for x in ast.walk(n):
                    if isinstance(x, (ast.Return, ast.For, ast.Try, ast.Raise)):
                        raise TranslationError(f'inside finally: statement outside subset: {src_of(x)}')

            def kerr(e):
                return self.block(list(s.finalbody), e, lambda e2: f'.error (exc_, {e2.selfterm})')
            return self.for_loop(s.body[0], env, lambda e: self.block(list(s.finalbody) + rest, e, k), kerr)
        if isinstance(s, ast.Return):
            if s.value is not None and not (isinstance(s.value, ast.Constant) and s.value.value is None):
                raise TranslationError(f'return of a value: {src_of(s)}')
            if env.where != 'main':
                raise TranslationError('return inside a loop body (outside subset)')
            return f'.ok {env.selfterm}'
        if isinstance(s, ast.Raise):
            exc = s.exc
            if s.cause is not None or exc is None:
                raise TranslationError(f'raise outside subset: {src_of(s)}')
            if isinstance(exc, ast.Call) and isinstance(exc.func, ast.Name) and not exc.keywords \
                    and all(isinstance(a, ast.Constant) and isinstance(a.value, str) for a in exc.args):
                exc = exc.func
            if not isinstance(exc, ast.Name) or exc.id in env.vars:
                raise TranslationError(f'raise outside subset: {src_of(s)}')
            return self.err(exc.id, env) + f'  -- {exc.id}'
        if isinstance(s, ast.Delete):
            if len(s.targets) != 1 or not isinstance(s.targets[0], ast.Subscript):
                raise TranslationError(f'del outside subset: {src_of(s)}')
            d = self.expr(s.targets[0].value, env)
            kk = self.expr(s.targets[0].slice, env)
            if d.ty != 'odict' or d.field is None or kk.ty != 'label' or kk.raises:
                raise TranslationError(f'del outside subset: {src_of(s)} ({d.ty}[{kk.ty}])')
            x = self.fresh('d')
            e2 = env.copy()
            e2.selfterm = self.fresh('self')
            return self.bind(Val(f'odDel {d.term} {kk.term}', 'odict', raises=True), x, env,
                             f'let {e2.selfterm} := {{ {env.selfterm} with {d.field} := {x} }}\n' + cont(e2))
        if isinstance(s, ast.Expr) and isinstance(s.value, ast.Call):
            return self.expr_stmt(s.value, s, env, cont)
        raise TranslationError(f'statement outside subset: {src_of(s)}')

    def check_local(self, name, s):
        if name in RESERVED or name.endswith('_') or name == 'FrameDeferred':
            raise TranslationError(f'{src_of(s)}: local named {name}')

    def assign_name(self, name, value, s, env, cont):
        self.check_local(name, s)
        cur = env.vars.get(name)
        if cur is not None and cur.ty in ('key',):
            raise TranslationError(f'{src_of(s)}: assignment to the parameter {name}')
        v = self.expr(value, env)
        e2 = env.copy()
        if v.ty == 'next-of-reader':
            # x = next(g): the frame, and g advanced
            f, g2 = self.fresh(name), self.fresh(v.via)
            e2.vars[name] = Val(f'(some {f})', 'cell', const='frame')
            e2.vars[v.via] = Val(g2, 'reader')
            return self.bind(v, f'({f}, {g2})', env, cont(e2))
        if v.ty in ('none', 'seriesobj', 'store', 'config', 'boolsel', 'labelarr', 'pair', 'hidden') or v.field is not None:
            raise TranslationError(f'{src_of(s)}: a local bound to {v.ty}{" (an alias of a mutable attribute)" if v.field else ""} is outside the subset')
        if cur is not None and cur.ty not in ('hidden', v.ty):
            raise TranslationError(f'{src_of(s)}: {name} is {cur.ty}, assigned {v.ty}')
        if v.ty == 'bool' and v.const is not None:
            e2.vars[name] = Val(v.term, 'bool', const=v.const)
            return cont(e2)
        if v.ty == 'index':
            e2.vars[name] = Val(v.term, 'index')
            return cont(e2)
        ln = self.fresh(name)
        e2.vars[name] = Val(ln, v.ty, owned=v.owned, via=v.via, const=v.const if v.ty == 'cell' else None)
        if v.raises:
            return self.bind(v, ln, env, cont(e2))
        return f'let {ln} := {v.term}\n' + cont(e2)

    def assign_subscript(self, t, value, s, env, cont):
        # target evaluated after the value (Python order); both sides are names / attributes here
        if self.is_self_attr(t.value, '_last_accessed'):
            env1 = env
            pre = ''
            if isinstance(value, ast.Call) and isinstance(value.func, ast.Attribute) and value.func.attr == 'pop' \
                    and self.is_self_attr(value.func.value, '_last_accessed') and not value.keywords:
                pre, env1, raising = self.od_pop(value, s, env)
                if raising is not None:
                    return raising(lambda e_after: self.od_set(t, s, e_after, cont))
            elif not (isinstance(value, ast.Constant) and value.value is None):
                raise TranslationError(f'value stored in self._last_accessed outside subset: {src_of(s)}')
            return pre + self.od_set(t, s, env1, cont)
        base = self.expr(t.value, env)
        i = self.expr(t.slice, env)
        if i.ty != 'pos' or i.raises:
            raise TranslationError(f'{src_of(s)}: subscript {i.ty} outside subset')
        v = self.expr(value, env)
        if v.raises:
            raise TranslationError(f'{src_of(s)}: raising value in a subscript assignment')
        if base.ty == 'boolarr' and base.field is not None:
            if v.ty != 'bool' or v.const is None:
                raise TranslationError(f'{src_of(s)}: only True / False are stored in self._loaded')
            x = self.fresh('a')
            e2 = env.copy()
            e2.selfterm = self.fresh('self')
            return self.bind(Val(f'arrSet {base.term} {i.term} {v.term}', 'boolarr', raises=True), x, env,
                             f'let {e2.selfterm} := {{ {env.selfterm} with {base.field} := {x} }}\n' + cont(e2))
        if base.ty == 'cells' and isinstance(t.value, ast.Name):
            if not base.owned:
                raise TranslationError(f'{src_of(s)}: assignment into an array that is not a copy (it aliases self._series.values)')
            if v.ty != 'cell':
                raise TranslationError(f'{src_of(s)}: {v.ty} stored in an object array')
            x = self.fresh(t.value.id)
            e2 = env.copy()
            e2.vars[t.value.id] = Val(x, 'cells', owned=True)
            return self.bind(Val(f'arrSet {base.term} {i.term} {v.term}', 'cells', raises=True), x, env, cont(e2))
        raise TranslationError(f'subscript assignment outside subset: {src_of(s)} (into {base.ty})')

    def od_pop(self, call, s, env):
        """`self._last_accessed.pop(k[, None])` -> (text before, env after, None) or ('', env, binder) when it may raise"""
        d = self.expr(call.func.value, env)
        if len(call.args) == 2 and isinstance(call.args[1], ast.Constant) and call.args[1].value is None:
            kk = self.expr(call.args[0], env)
            if kk.ty != 'label' or kk.raises:
                raise TranslationError(f'{src_of(s)}: key of pop is {kk.ty}')
            e2 = env.copy()
            e2.selfterm = self.fresh('self')
            return f'let {e2.selfterm} := {{ {env.selfterm} with last_accessed := odPop {d.term} {kk.term} }}\n', e2, None
        if len(call.args) == 1:
            kk = self.expr(call.args[0], env)
            if kk.ty != 'label' or kk.raises:
                raise TranslationError(f'{src_of(s)}: key of pop is {kk.ty}')
            x = self.fresh('d')
            e2 = env.copy()
            e2.selfterm = self.fresh('self')

            def binder(k_after):
                return self.bind(Val(f'odDel {d.term} {kk.term}', 'odict', raises=True), x, env,
                                 f'let {e2.selfterm} := {{ {env.selfterm} with last_accessed := {x} }}\n' + k_after(e2))
            return '', env, binder
        raise TranslationError(f'{src_of(s)}: pop outside subset')

    def od_set(self, t, s, env, cont):
        d = self.expr(t.value, env)
        kk = self.expr(t.slice, env)
        if kk.ty != 'label' or kk.raises:
            raise TranslationError(f'{src_of(s)}: key of self._last_accessed is {kk.ty}')
        e2 = env.copy()
        e2.selfterm = self.fresh('self')
        return f'let {e2.selfterm} := {{ {env.selfterm} with last_accessed := odSet {d.term} {kk.term} }}\n' + cont(e2)

    def assign_attribute(self, t, value, s, env, cont):
        if self.is_self_attr(t, '_loaded_all'):
            v = self.expr(value, env)
            if v.ty != 'bool' or v.raises:
                raise TranslationError(f'{src_of(s)}: {v.ty} assigned to self._loaded_all')
            e2 = env.copy()
            e2.selfterm = self.fresh('self')
            return f'let {e2.selfterm} := {{ {env.selfterm} with loaded_all := {v.term} }}\n' + cont(e2)
        if self.is_self_attr(t, '_series'):
            if not (isinstance(value, ast.Call) and isinstance(value.func, ast.Name) and value.func.id == 'Series' and 'Series' not in env.vars
                    and len(value.args) == 1):
                raise TranslationError(f'{src_of(s)}: self._series is not re-built with Series(<array>, index=...)')
            kws = {k.arg: k.value for k in value.keywords}
            if set(kws) - {'index', 'dtype', 'own_index'} or 'index' not in kws:
                raise TranslationError(f'{src_of(s)}: keyword arguments outside subset')
            if self.expr(kws['index'], env).ty != 'index':
                raise TranslationError(f'{src_of(s)}: the new Series does not keep the index of the Bus')
            if 'dtype' in kws and not (isinstance(kws['dtype'], ast.Name) and kws['dtype'].id in ('object', 'DTYPE_OBJECT')):
                raise TranslationError(f'{src_of(s)}: dtype outside subset')
            if 'own_index' in kws and not (isinstance(kws['own_index'], ast.Constant) and isinstance(kws['own_index'].value, bool)):
                raise TranslationError(f'{src_of(s)}: own_index outside subset')
            a = self.expr(value.args[0], env)
            if a.ty != 'cells' or a.raises:
                raise TranslationError(f'{src_of(s)}: {a.ty} handed to Series')
            e2 = env.copy()
            e2.selfterm = self.fresh('self')
            return f'let {e2.selfterm} := {{ {env.selfterm} with series := {a.term} }}\n' + cont(e2)
        # data-only: <object array>.flags.writeable = False
        if (t.attr == 'writeable' and isinstance(t.value, ast.Attribute) and t.value.attr == 'flags' and isinstance(t.value.value, ast.Name)
                and self.lookup(t.value.value.id, env, s).ty == 'cells' and isinstance(value, ast.Constant) and isinstance(value.value, bool)):
            if ast.unparse(s) not in self.data_stmts:
                self.data_stmts.append(ast.unparse(s))
            return cont(env)
        raise TranslationError(f'attribute assignment outside subset: {src_of(s)}')

    def assign_tuple(self, t, value, s, env, cont):
        # k, _ = self._last_accessed.popitem()        (a plain dict: no `last=` argument, no move_to_end)
        if (len(t.elts) == 2 and all(isinstance(x, ast.Name) for x in t.elts) and isinstance(value, ast.Call) and isinstance(value.func, ast.Attribute)
                and value.func.attr == 'popitem' and self.is_self_attr(value.func.value, '_last_accessed') and not value.args):
            if value.keywords:
                raise TranslationError(f'{src_of(s)}: popitem of a plain dict takes no argument')
            d = self.expr(value.func.value, env)
            name = t.elts[0].id
            self.check_local(name, s)
            x, dd = self.fresh(name), self.fresh('d')
            e2 = env.copy()
            e2.selfterm = self.fresh('self')
            e2.vars[name] = Val(x, 'label')
            e2.vars[t.elts[1].id] = HIDDEN
            return self.bind(Val(f'odPopLast {d.term}', 'x', raises=True), f'({x}, {dd})', env,
                             f'let {e2.selfterm} := {{ {env.selfterm} with last_accessed := {dd} }}\n' + cont(e2))
        raise TranslationError(f'tuple assignment outside subset: {src_of(s)}')

    def expr_stmt(self, call, s, env, cont):
        f = call.func
        if isinstance(f, ast.Attribute) and self.is_self_attr(f.value, '_last_accessed') and not call.keywords:
            if f.attr == 'pop':
                pre, env1, raising = self.od_pop(call, s, env)
                if raising is not None:
                    return raising(cont)
                return pre + cont(env1)
        raise TranslationError(f'statement outside subset: {src_of(s)}')

    # ------------------------------------------------------------------ loops
    def for_loop(self, s, env, cont, kerr=None):
        if s.orelse:
            raise TranslationError('for ... else (outside subset)')
        if env.where != 'main':
            raise TranslationError('nested loop (outside subset)')
        for n in ast.walk(s):
            if isinstance(n, (ast.Break, ast.Continue, ast.Return, ast.While, ast.With, ast.Try, ast.Yield, ast.YieldFrom, ast.Lambda,
                              ast.FunctionDef, ast.NamedExpr, ast.Global, ast.Nonlocal)) or (isinstance(n, ast.For) and n is not s):
                raise TranslationError(f'inside a loop: statement outside subset: {src_of(n)}')
        it = self.expr(s.iter, env)
        if it.raises or it.ty not in ('pairs', 'labels'):
            raise TranslationError(f'loop over {it.ty}{" (raising)" if it.raises else ""} outside subset: {src_of(s.iter)}')
        if it.ty == 'pairs':
            if not (isinstance(s.target, ast.Tuple) and len(s.target.elts) == 2 and all(isinstance(x, ast.Name) for x in s.target.elts)
                    and s.target.elts[0].id != s.target.elts[1].id):
                raise TranslationError(f'loop target outside subset: {src_of(s.target)}')
            targets = [(s.target.elts[0].id, 'label'), (s.target.elts[1].id, 'cell')]
        else:
            if not isinstance(s.target, ast.Name):
                raise TranslationError(f'loop target outside subset: {src_of(s.target)}')
            targets = [(s.target.id, 'label')]
        for name, _ in targets:
            self.check_local(name, s)
        loop_id = self.loops.index(s) + 1
        tag = 'mpNone' if env.facts['mp'] == 'none' else 'mpSome'
        tnames = [n for n, _ in targets]
        # locals re-bound inside the body that exist before the loop: threaded through it
        assigned = []
        for n in ast.walk(s):
            names = []
            if isinstance(n, ast.Assign):
                for t in n.targets:
                    for x in ([t] if not isinstance(t, ast.Tuple) else t.elts):
                        if isinstance(x, ast.Name):
                            names.append(x.id)
                        elif isinstance(x, ast.Subscript) and isinstance(x.value, ast.Name):
                            names.append(x.value.id)
            elif isinstance(n, (ast.AugAssign, ast.AnnAssign)) and isinstance(n.target, ast.Name):
                names.append(n.target.id)
            elif isinstance(n, ast.Call) and isinstance(n.func, ast.Name) and n.func.id == 'next' and n.args and isinstance(n.args[0], ast.Name):
                names.append(n.args[0].id)
            for x in names:
                if x not in assigned:
                    assigned.append(x)
        carried = [n for n in env.vars if n in assigned and n not in tnames and env.vars[n].ty != 'hidden']
        # a name assigned only on a path that is dead in this arm is not threaded (it stays what it was)
        carried = [n for n in carried if self.assigned_live(s, n, env)]
        for n in carried:
            if env.vars[n].ty not in ('cells', 'int', 'reader'):
                raise TranslationError(f'the loop re-binds {n} ({env.vars[n].ty}): outside subset')
            if env.vars[n].ty == 'cells' and not env.vars[n].owned:
                raise TranslationError(f'the loop writes into {n}, which is not a copy')
        exp = EXPECT_LOOPS.get((loop_id, tag))
        if exp is not None and sorted(exp[1]) == sorted(carried):
            carried = list(exp[1])           # (reported in this order whatever the order in which they were bound)
        if exp is None or exp != (it.ty, carried):
            raise TranslationError(f'loop {loop_id} ({tag}) iterates {it.ty} and threads {carried}; expected {exp} (the bridge lemmas are stated for these)')
        # ---- body
        benv = Env(where='body', facts={'mp': env.facts['mp'], 'key': 'hidden'}, carried=carried)
        for name, v in env.vars.items():
            if name in carried:
                benv.vars[name] = Val(name, v.ty, owned=v.owned)
            elif v.ty == 'index' or (v.ty == 'bool' and v.const is not None):
                benv.vars[name] = v
            else:
                benv.vars[name] = HIDDEN
        for name, ty in targets:
            benv.vars[name] = Val(name, ty, via='loop')
        cty = [LEAN_TY[env.vars[n].ty] for n in carried]

        def kbody(e):
            return '.ok ' + ('(' + ', '.join([e.selfterm] + [e.vars[n].term for n in carried]) + ')' if carried else e.selfterm)
        saved, self.counter = self.counter, 0          # (names inside a body are numbered from 1: the text of a body does not
        body = self.block(list(s.body), benv, kbody)   #  depend on what precedes the loop)
        self.counter = saved
        mp_param = ' (max_persist : Nat)' if tag == 'mpSome' else ''
        mp_arg = ' max_persist' if tag == 'mpSome' else ''
        ret_ty = ' × '.join(['Obj φ'] + cty)
        bname = f'{FN}_loop{loop_id}_body_{tag}'
        lname = f'{FN}_loop{loop_id}_{tag}'
        params = ''.join(f' ({n} : {t})' for n, t in zip(carried, cty)) + ''.join(f' ({n} : {LEAN_TY[t]})' for n, t in targets)
        body_def = (f'/-- one pass of loop {loop_id} (`for {src_of(s.target)} in {src_of(s.iter, 60)}`), max_persist {"is None" if tag == "mpNone" else "is an int"} -/\n'
                    f'def {bname} {{φ : Type}} (env : Env φ){mp_param} (self : Obj φ){params} :\n'
                    f'    Except (Err × ({ret_ty})) ({ret_ty}) :=\n{ind(body)}\n')
        item_ty = 'Nat × Option φ' if it.ty == 'pairs' else 'Nat'
        item_args = ' item_.1 item_.2' if it.ty == 'pairs' else ' item_'
        cpat = ''.join(f', {n}' for n in carried)
        cpat2 = ''.join(f', {n}\'' for n in carried)
        cargs = ''.join(f' {n}' for n in carried)
        cargs2 = ''.join(f' {n}\'' for n in carried)
        okpat = f"(self'{cpat2})" if carried else "self'"
        loop_def = (f'/-- loop {loop_id}: the passes in the order of the items; an exception ends it with the object as mutated so far -/\n'
                    f'def {lname} {{φ : Type}} (env : Env φ){mp_param} :\n'
                    f'    Obj φ → {"".join(t + " → " for t in cty)}List ({item_ty}) → Except (Err × ({ret_ty})) ({ret_ty})\n'
                    f'  | self{cpat}, [] => .ok {"(self" + cpat + ")" if carried else "self"}\n'
                    f'  | self{cpat}, item_ :: rest_ =>\n'
                    f'    match {bname} env{mp_arg} self{cargs}{item_args} with\n'
                    f'    | .error e_ => .error e_\n'
                    f'    | .ok {okpat} => {lname} env{mp_arg} self\'{cargs2} rest_\n')
        key = (loop_id, tag)
        norm = self.normalise(body_def)
        if key in self.defs:
            if self.defs[key][0] != norm:
                raise TranslationError(f'loop {loop_id} ({tag}): the body depends on the path that leads to it (outside subset)')
        else:
            self.defs[key] = (norm, body_def + '\n' + loop_def)
            self.def_order.append(key)
        # ---- call
        e2 = env.copy()
        e2.selfterm = self.fresh('self')
        pats = [e2.selfterm]
        for n in carried:
            x = self.fresh(n)
            e2.vars[n] = Val(x, env.vars[n].ty, owned=env.vars[n].owned)
            pats.append(x)
        for n in tnames:
            e2.vars[n] = HIDDEN
        for n in assigned:
            if n not in carried and n not in env.vars:
                e2.vars[n] = HIDDEN
        call = f'{lname} env{mp_arg} {env.selfterm}' + ''.join(f' {env.vars[n].term}' for n in carried) + f' {it.term}'
        pat = '(' + ', '.join(pats) + ')' if carried else pats[0]
        # an exception: the object and the threaded locals as the interrupted pass left them
        e3 = env.copy()
        e3.selfterm = self.fresh('self')
        epats = [e3.selfterm]
        for n in carried:
            x = self.fresh(n)
            e3.vars[n] = Val(x, env.vars[n].ty, owned=env.vars[n].owned)
            epats.append(x)
        for n in tnames:
            e3.vars[n] = HIDDEN
        for n in assigned:
            if n not in carried and n not in env.vars:
                e3.vars[n] = HIDDEN
        epat = '(' + ', '.join(epats) + ')' if carried else epats[0]
        err_arm = kerr(e3) if kerr is not None else f'.error (exc_, {e3.selfterm})'
        return f'match {call} with\n| .error (exc_, {epat}) =>\n{ind(err_arm)}\n| .ok {pat} =>\n{ind(cont(e2))}'

    def assigned_live(self, loop, name, env):
        """is `name` assigned somewhere in the loop body outside statements guarded by a test that is constant-false in this arm"""
        def walk(stmts):
            for st in stmts:
                if isinstance(st, ast.If):
                    c = self.test_const_static(st.test, env)
                    if c is not False and walk(st.body):
                        return True
                    if c is not True and walk(st.orelse):
                        return True
                    continue
                for n in ast.walk(st):
                    if isinstance(n, ast.Assign):
                        for t in n.targets:
                            for x in ([t] if not isinstance(t, ast.Tuple) else t.elts):
                                if (isinstance(x, ast.Name) and x.id == name) or (isinstance(x, ast.Subscript) and isinstance(x.value, ast.Name) and x.value.id == name):
                                    return True
                    elif isinstance(n, (ast.AugAssign, ast.AnnAssign)) and isinstance(n.target, ast.Name) and n.target.id == name:
                        return True
                    elif isinstance(n, ast.Call) and isinstance(n.func, ast.Name) and n.func.id == 'next' and n.args and isinstance(n.args[0], ast.Name) and n.args[0].id == name:
                        return True
            return False
        return walk(loop.body)

    def test_const_static(self, t, env):
        """constant value of a test built from Boolean constants of this arm only (no typing needed); None when unknown"""
        if isinstance(t, ast.Constant) and isinstance(t.value, bool):
            return t.value
        if isinstance(t, ast.Name) and t.id in env.vars and env.vars[t.id].ty == 'bool' and env.vars[t.id].const is not None:
            return env.vars[t.id].const
        if isinstance(t, ast.UnaryOp) and isinstance(t.op, ast.Not):
            c = self.test_const_static(t.operand, env)
            return None if c is None else (not c)
        if isinstance(t, ast.BoolOp):
            stop = isinstance(t.op, ast.Or)
            cs = [self.test_const_static(v, env) for v in t.values]
            if cs and cs[0] is stop:            # (only the first operand: later ones are not reached only if earlier ones do not raise)
                return stop
            if all(c is (not stop) for c in cs):
                return not stop
        return None

    @staticmethod
    def normalise(text):
        import re
        return re.sub(r'_\d+\b', '_#', text)


def find_method(tree):
    for node in tree.body:
        if isinstance(node, ast.ClassDef) and node.name == CLASS:
            fns = [n for n in node.body if isinstance(n, ast.FunctionDef) and n.name == NAME]
            if len(fns) != 1:
                raise TranslationError(f'{CLASS}.{NAME}: {len(fns)} definitions')
            return fns[0]
    raise TranslationError(f'class {CLASS} not found')


def check_signature(fn):
    a = fn.args
    if a.posonlyargs or a.kwonlyargs or a.vararg or a.kwarg or a.defaults or fn.decorator_list or [x.arg for x in a.args] != ['self', 'key']:
        raise TranslationError(f'signature outside subset: ({", ".join(x.arg for x in a.args)})')
    for node in ast.walk(fn):
        if isinstance(node, (ast.AsyncFunctionDef, ast.ClassDef, ast.Lambda, ast.While, ast.With, ast.Global, ast.Nonlocal, ast.Yield,
                             ast.YieldFrom, ast.Await, ast.NamedExpr, ast.ListComp, ast.SetComp, ast.DictComp, ast.Import, ast.ImportFrom,
                             ast.Assert)) or (isinstance(node, ast.FunctionDef) and node is not fn):
            raise TranslationError(f'statement outside subset: {src_of(node)}')


def translate(src):
    fn = find_method(ast.parse(src))
    check_signature(fn)
    tr = Translator(fn)
    env = Env()
    env.vars['key'] = Val('key', 'key')
    main = tr.block(list(fn.body), env, lambda e: f'.ok {e.selfterm}')
    out = []
    if tr.data_stmts:
        out.append('/- data-only statements recognised (abstracted):')
        for t in tr.data_stmts:
            out.append('     ' + t.replace('-/', '- /'))
        out.append('-/')
        out.append('')
    missing = [k for k in EXPECT_LOOPS if k not in tr.defs]
    if missing:
        raise TranslationError(f'loops {missing} were not reached (the bridge lemmas are stated for them)')
    for key in sorted(tr.defs):
        out.append(tr.defs[key][1])
    out.append(f'/-- `{CLASS}.{NAME}(key)`: the object afterwards, or the exception with the object as it was left -/')
    out.append(f'def {FN} {{φ : Type}} (env : Env φ) (self : Obj φ) (key : IKey) : Except (Err × Obj φ) (Obj φ) :=\n{ind(main)}\n')
    return '\n'.join(out)


def stubs(ex):
    msg = str(ex).replace('-/', '- /')
    out = [f'-- TRANSLATION FAILED: {msg}']
    for (loop_id, tag), (kind, carried) in sorted(EXPECT_LOOPS.items()):
        tys = {'array': 'List (Option φ)', 'loaded_count': 'Int', 'store_reader': 'Reader'}
        cty = [tys[c] for c in carried]
        mp = ' (max_persist : Nat)' if tag == 'mpSome' else ''
        params = ''.join(f' ({n} : {t})' for n, t in zip(carried, cty))
        items = ' (label : Nat) (frame : Option φ)' if kind == 'pairs' else ' (label : Nat)'
        ret = ' × '.join(['Obj φ'] + cty)
        item_ty = 'Nat × Option φ' if kind == 'pairs' else 'Nat'
        pay = '(' + ', '.join(['self'] + carried) + ')' if carried else 'self'
        out.append(f'def {FN}_loop{loop_id}_body_{tag} {{φ : Type}} (env : Env φ){mp} (self : Obj φ){params}{items} :\n'
                   f'    Except (Err × ({ret})) ({ret}) := .error (.other, {pay})')
        out.append(f'def {FN}_loop{loop_id}_{tag} {{φ : Type}} (env : Env φ){mp} :\n'
                   f'    Obj φ → {"".join(t + " → " for t in cty)}List ({item_ty}) → Except (Err × ({ret})) ({ret}) :=\n'
                   f'  fun self {" ".join(carried)} _ => .error (.other, {pay})')
    out.append(f'def {FN} {{φ : Type}} (env : Env φ) (self : Obj φ) (key : IKey) : Except (Err × Obj φ) (Obj φ) := .error (.other, self)\n')
    return '\n'.join(out)


def generate(repo):
    """Returns (text, list of error strings)."""
    head = ['-- GENERATED by tools/py2lean_bus.py from the current static_frame/core/bus.py; do not edit.',
            'import SFModel.BusSem', '', 'set_option linter.unusedVariables false', '', 'namespace SF.Gen.Bus', 'open SF SF.BusSem', '',
            f'-- {PATH} :: {CLASS}.{NAME}']
    errors = []
    try:
        src = open(os.path.join(repo, PATH)).read()
        body = translate(src)
    except (TranslationError, SyntaxError, OSError, RecursionError) as ex:
        errors.append(f'{NAME}: {ex}')
        body = stubs(ex)
    return '\n'.join(head) + '\n' + body + '\nend SF.Gen.Bus\n', errors


def main():
    ap = argparse.ArgumentParser()
    ap.add_argument('--repo', default='/repo')
    ap.add_argument('--out', default=os.path.join(os.path.dirname(os.path.dirname(os.path.abspath(__file__))), 'lean', 'SFModel', 'Gen'))
    ap.add_argument('--check', action='store_true', help='do not write: rc 1 on a translation error or if the file on disk differs')
    ap.add_argument('--stdout', action='store_true', help='print the translation instead of writing it')
    a = ap.parse_args()
    text, errors = generate(a.repo)
    if a.stdout:
        sys.stdout.write(text)
        for e in errors:
            print('py2lean_bus: TRANSLATION-ERROR', e, file=sys.stderr)
        return 1 if errors else 0
    os.makedirs(a.out, exist_ok=True)
    target = os.path.join(a.out, 'Bus.lean')
    old = open(target).read() if os.path.exists(target) else None
    if a.check:
        for e in errors:
            print('py2lean_bus: TRANSLATION-ERROR', e)
        print('py2lean_bus: up to date' if old == text else f'py2lean_bus: {target} differs from the translation of the current source')
        return 1 if errors or old != text else 0
    if old != text:
        with open(target, 'w') as f:
            f.write(text)
        print(f'py2lean_bus: wrote {target}')
    else:
        print('py2lean_bus: unchanged')
    for e in errors:
        print('py2lean_bus: TRANSLATION-ERROR', e)
    return 1 if errors else 0


if __name__ == '__main__':
    sys.exit(main())
