#!/bin/bash
# intake of a sub-agent's seeded change: tools/intake_seeded.sh <nn> <short_name>
# copies /tmp/sw/m<nn>_out into seeded/, confirms it independently (demo + pinned suite), runs the property's check
n=$1; name=$2
src=/tmp/sw/m${n}_out
prop=$(python3 -c "import json;print(json.load(open('$src/meta.json'))['property'])")
id=m${n}_$(echo $prop | tr A-Z a-z)_$name
d=/verif/seeded/$id
mkdir -p $d && cp $src/patch.diff $src/demo.py $src/meta.json $d/
echo "== $id"
/venv/bin/python /verif/tools/verify_seeded.py $id 2>&1 | grep -v conda | tail -2
for s in 0 1; do /venv/bin/python /verif/tools/run_seeded.py $id --seed $s $( [ $s = 0 ] && echo --record ) 2>&1 | grep -v conda | head -4 | cut -c1-400; done
git -C /repo worktree remove --force /tmp/sw/m$n 2>/dev/null; rm -rf /tmp/sw/m$n
