#!/usr/bin/env python3
"""Writes MANIFEST.json from the per-property metadata in harness/sfv/props/*.py and tools/manifest_meta.json."""
import json, os, sys
VERIF = os.path.dirname(os.path.dirname(os.path.abspath(__file__)))
meta = {}
for fn in sorted(os.listdir(os.path.join(VERIF, 'tools', 'meta'))):
    if fn.endswith('.json'):
        meta[fn[:-5]] = json.load(open(os.path.join(VERIF, 'tools', 'meta', fn)))
props = [json.loads(l)['id'] for l in open(os.path.join(VERIF, 'properties.jsonl'))]
checks, na = [], []
for pid in props:
    m = meta.get(pid)
    if not m or not m.get('claimed') or not os.path.exists(os.path.join(VERIF, 'harness', 'sfv', 'props', pid.lower() + '.py')):
        na.append({'property_id': pid, 'reason': (m or {}).get('reason', 'check not built yet in this round (design in DESIGN.md section 3); not a limit of the technique')})
        continue
    checks.append({
        'property_id': pid,
        'quick_cmd': f'/venv/bin/python harness/check.py {pid} --tier quick',
        'thorough_cmd': f'/venv/bin/python harness/check.py {pid} --tier thorough',
        'evidence_file': f'evidence/{pid}.json',
        'replay_cmd_template': f'/venv/bin/python harness/check.py {pid} --replay {{path}}',
        'engine': 'lean4-model+correspondence',
        'level_claimed': {'category': 'proof', 'text': m['text'], 'design_ref': m.get('design_ref', f'DESIGN.md section 3 {pid}')},
        'level_note': m['note'],
        'technique': m.get('technique', 'Lean 4 theorems about an executable model + differential correspondence check against the real code'),
    })
man = {
    'version': 1,
    'setup_cmd': 'python3 tools/gen_drv_all.py && for t in py2lean py2lean_dtype py2lean_locmap py2lean_window py2lean_targets py2lean_reduce py2lean_bus; do /venv/bin/python tools/$t.py; done; cd lean && lake build SFModel',
    'hooks': {
        'guard': 'STATIC_FRAME_VERIF',
        'enable': 'none needed: every observation is made by attribute access from outside; no source hooks',
        'baseline_off_cmd': 'cd /repo && /venv/bin/python -m pytest -ra -q -p no:cacheprovider --timeout=900 --continue-on-collection-errors',
        'source_commits': [],
        'add_only': True,
    },
    'engines': [{'name': 'lean4-model+correspondence', 'path': 'lean/ + harness/', 'serves_properties': [c['property_id'] for c in checks],
                 'kind_free_text': 'Lean 4 models and theorems (lake project lean/, no Mathlib require), Python->Lean translator (tools/py2lean.py), line-protocol driver (lean/Driver.lean), correspondence + oracle harness (harness/check.py)'}],
    'checks': checks,
    'not_applicable': na,
    'notes': 'See DESIGN.md. Exit 2 of a check = infrastructure error (time-out), never a violation. known_findings.json lists recorded genuine defects and fix: commits.',
}
json.dump(man, open(os.path.join(VERIF, 'MANIFEST.json'), 'w'), indent=1)
print(f'{len(checks)} checks, {len(na)} not_applicable')
