#!/venv/bin/python
"""Mutation self-test of tools/py2lean_targets.py + lean/SFModel/BridgeTargets.lean (NOT part of the check):
small source mutations of `util.slices_from_targets` in a scratch copy; for each: does the REAL function change on a
grid, is the translation rejected / changed, do the bridge lemmas still hold.  Same driver and columns as
tools/selftest_py2lean_window.py.

usage: selftest_py2lean_targets.py [--only id,...] [--check-missed] [--markdown]
"""
import os
import sys

sys.path.insert(0, os.path.dirname(os.path.abspath(__file__)))
import selftest_py2lean_window as st  # noqa: E402

MUTATIONS = [
    ('t01', 'forward candidate: slice(start+1, stop) -> slice(start, stop)', 'slice(start+1, stop)\n', 'slice(start, stop)\n', 'sem'),
    ('t02', 'backward candidate: start+1 -> start', 'slice((start+1 if start is not None else 0), stop)', 'slice((start if start is not None else 0), stop)', 'sem'),
    ('t03', 'backward candidate: first slice from 1 instead of 0', 'slice((start+1 if start is not None else 0), stop)', 'slice((start+1 if start is not None else 1), stop)', 'sem'),
    ('t04', 'no-op test start == stop -> start != stop', 'if target_slice.start == target_slice.stop:', 'if target_slice.start != target_slice.stop:', 'sem'),
    ('t05', 'start >= length -> start > length (same for the callers: a forward slice starting at length reads sel[length], which does not exist; '
            'the bridge lemma does not assume len(sel) = length)',
     'elif directional_forward and target_slice.start >= length:', 'elif directional_forward and target_slice.start > length:', 'state'),
    ('t06', 'limit > 0 -> limit >= 0 (limit 0 = unlimited would trim everything)', 'if limit > 0:', 'if limit >= 0:', 'sem'),
    ('t07', 'shift = len - limit -> len + limit', 'len(range(*target_slice.indices(length))) - limit', 'len(range(*target_slice.indices(length))) + limit', 'sem'),
    ('t08', 'shift > 0 -> shift >= 0 (trimming by 0 changes nothing)', '                if shift > 0:\n\n                    if directional_forward:', '                if shift >= 0:\n\n                    if directional_forward:', 'equiv'),
    ('t09', 'forward trimming: stop - shift -> stop + shift', 'target_slice.stop - shift)', 'target_slice.stop + shift)', 'sem'),
    ('t10', 'backward trimming: start + shift -> start - shift', '(target_slice.start or 0) + shift,', '(target_slice.start or 0) - shift,', 'sem'),
    ('t11', 'trimming arms swapped (forward trims the start)', '                    if directional_forward:\n                        target_slice = slice(',
     '                    if not directional_forward:\n                        target_slice = slice(', 'sem'),
    ('t12', 'fill value of the last forward slice: length -> length - 1', 'fillvalue=length)', 'fillvalue=length - 1)', 'sem'),
    ('t13', 'pairs of target_index with target_index[2:]', 'zip_longest(target_index, target_index[1:], fillvalue=length)',
     'zip_longest(target_index, target_index[2:], fillvalue=length)', 'sem'),
    ('t14', 'slice_condition negated', 'if slice_condition(target_slice):', 'if not slice_condition(target_slice):', 'sem'),
    ('t15', 'values shifted against the slices', 'in zip(target_slices, target_values):', 'in zip(target_slices, target_values[1:]):', 'sem'),
    ('t16', 'ELEMENT_TUPLE = (None,) -> (0,)', 'ELEMENT_TUPLE = (None,)', 'ELEMENT_TUPLE = (0,)', 'sem'),
    ('t17', 'limit trimmed by one more: - limit -> - limit + 1', 'len(range(*target_slice.indices(length))) - limit', 'len(range(*target_slice.indices(length))) - limit + 1', 'sem'),
    ('t18', 'backward: (start or 0) -> start (same integer)', '(target_slice.start or 0) + shift,', 'target_slice.start + shift,', 'equiv'),
]

GRID_SCRIPT = r'''
import json, sys, itertools
sys.path.insert(0, sys.argv[1] + '/harness')
from sfv.props import c14_targets_gen as t
from static_frame.core.util import slices_from_targets
out = []
for n in range(0, 7):
    for sel in itertools.product((0, 1), repeat=n):
        ts = t.transitions(sel) if n else []
        for fwd in (True, False):
            for limit in range(0, n + 2):
                try:
                    out.append([(s.start, s.stop, int(v)) for s, v in slices_from_targets(ts, ts, n, fwd, limit, lambda s: bool(sel[s.start]))])
                except Exception as ex:
                    out.append(type(ex).__name__)
print(json.dumps(out, default=str))
'''

if __name__ == '__main__':
    sys.exit(st.main(MUTATIONS, rel='static_frame/core/util.py', tool='py2lean_targets.py', genfile='Targets.lean',
                     files=['BridgeTargets.lean'], imports=['SFModel.WindowSem', 'SFModel.NA'], grid_script=GRID_SCRIPT, prop='C14',
                     fn_name='slices_from_targets'))
