#!/venv/bin/python
"""py2lean — translate a small subset of Python (integer / None / slice logic, straight-line or one
`for` loop with accumulator state and `yield`) from static-frame's *current* source into Lean 4
definitions.

The generated definitions live in lean/SFModel/Gen/*.lean, are regenerated on every check run and
are tied to the hand-written reference definitions by kernel-checked bridge lemmas
(lean/SFModel/Bridge.lean).  A source change that alters a translated function therefore breaks a
proof obligation (or the translation itself when it leaves the subset: anything not listed below is
a TranslationError, never a guess).

Semantics of the subset (trusted; cross-checked against the real functions on a grid by
harness/sfv/props/c04.py, cases 'sl', 'cols', 'pairs'):
  * every generated function returns `Option T`; `none` = the Python code raises
    (IndexError on `l[0]` of an empty list, ZeroDivisionError, TypeError on None arithmetic or
    `None[0]`, UnboundLocalError on reading a local no assignment has reached)
  * ints are unbounded (`Int`), `//` is `Int.fdiv`, `%` is `Int.fmod`
  * an expression that may be None (`slice.start/stop/step`, a local declared `Optional[...]`) is never
    given a default: reading it forces a `match`, and each arm is translated with that knowledge
    (path-sensitive typing), mirroring Python's dynamic behaviour on that path
  * `a or b` / `a and b` / `not a` in tests are short-circuit; conditional expressions are
    translated by duplicating the continuation in both arms
  * truthiness tests (`if x`, `if not x`, operands of and/or) are defined for: None (falsy), a 2-tuple
    (always truthy: `(0, 0)` is not empty), a list (falsy iff empty).  Truthiness of an int is outside
    the subset.
  * values: ints, None, slices (`slice(a, b[, c])`, `.start/.stop/.step`, `a, b, c = s.indices(n)`),
    lists of ints (parameters: `l[0]`, `l[-1]`, `len(l)`; locals: created by a list display `[a, ...]`,
    extended by `name.append(int)` - only a list this function created is ever appended to, and such a
    list is never aliased: it can only be read, passed to a translated function or re-created),
    2-tuples `(int, int)` / `(int, slice)` (display, `t[0]`, `t[1]`), `abs`, `min`, `max`
  * `cls.f(args)` inside a classmethod, where `f` is a staticmethod / classmethod of the same class that
    is listed EARLIER in FUNCS (so it is itself translated from the source and bridged): the call
    becomes a `match` on the generated `Option`, `none` (the callee raised) is propagated.  Trusted:
    `cls` is the class itself (no subclass overrides `f`).

Generators (a function containing `yield`): the generated function returns `Option (List T)`, the list
of all yielded values, `none` if the body raises at any point (the model of `list(f(...))`; values
yielded before the exception are not observable in the model).  Shape:
      <prelude statements>
      for <x> | <x, y> in <the only parameter : list of ints | of (int, int)>: (exactly one loop, at top
          <body>                                                        level, no else / break / return)
      <epilogue statements>
  * the loop becomes a structural recursion `<name>_loop : List _ → <state...> → List T → Option (List T)`
    over the input list; the explicit state is one argument per local of the function, in order of
    first assignment, followed by the list of values yielded so far (`yield v` appends to it);
    `continue` and the end of the body are the recursive call on the rest of the list with the current
    state, the `[]` case is the epilogue
  * a local's type is its annotation (`tp.Optional[tp.Tuple[int, int]]` -> `Option (Int × Int)`,
    `tp.Optional[int]`, `int`) or, without annotation, `List Int` if every assignment to it is a list
    display; every assignment is checked against it.  A local not assigned unconditionally before the
    loop is carried as `Option T` with `none` = unbound (reading it then is UnboundLocalError);
    an `Optional` local must be initialised before the loop.
  * the loop variables are not visible in the epilogue; parameters, loop variables, `cls` are never
    assigned

usage: py2lean.py [--repo /repo] [--out lean/SFModel/Gen] [--check]
  --check: translate and compare with the file on disk without writing (rc 1 on a translation error or
           a difference)
"""
from __future__ import annotations

import argparse
import ast
import os
import sys
import textwrap

INT, OPT, NONE, SLICE, LIST, BOOL = 'Int', 'OptInt', 'NoneT', 'PySlice', 'ListInt', 'Bool'
TUP, OPTTUP, PAIRS = 'IntPair', 'OptIntPair', 'ListIntPair'        # (int, int), Optional[(int, int)], list of (int, int)
YPAIR, YPAIRS = 'IntSlicePair', 'ListIntSlicePair'                 # (int, slice), list of (int, slice)
UNBOUND = 'Unbound'                                                # a local no assignment has reached
OPT_INNER = {OPT: INT, OPTTUP: TUP}                                # Optional[T] -> T
LIST_ELEM = {LIST: INT, PAIRS: TUP, YPAIRS: YPAIR}
RESERVED = {'some', 'none', 'match', 'with', 'if', 'then', 'else', 'let', 'fun', 'def', 'do', 'at', 'have', 'show', 'end',
            'open', 'in', 'from', 'by', 'where', 'Type', 'Int', 'Nat', 'List', 'Option', 'PySlice', 'true', 'false', 'min', 'max',
            'rest_', 'out_'}


def MAYBE(t):
    """a local of type t that may be unbound (state of a loop): `Option t`, none = unbound"""
    return 'Unbound?' + t


def maybe_inner(t):
    return t[len('Unbound?'):] if t.startswith('Unbound?') else None


class TranslationError(Exception):
    pass


# (module file, class or None, function, parameter types, return type, lean name)
# order matters: a function may only call (`cls.f(...)`) functions listed before it
FUNCS = [
    ('static_frame/core/util.py', None, 'slice_to_ascending_slice',
     {'key': SLICE, 'size': INT}, SLICE, 'slice_to_ascending_slice'),
    ('static_frame/core/util.py', None, 'slice_to_inclusive_slice',
     {'key': SLICE, 'offset': INT}, SLICE, 'slice_to_inclusive_slice'),
    ('static_frame/core/type_blocks.py', 'TypeBlocks', '_cols_to_slice',
     {'indices': LIST}, SLICE, '_cols_to_slice'),
    ('static_frame/core/type_blocks.py', 'TypeBlocks', '_indices_to_contiguous_pairs',
     {'indices': PAIRS}, YPAIRS, 'indices_to_contiguous_pairs'),
]

# module-level constants of static_frame.core.util the translated functions may name; their values are
# re-read from the source by `check_constants` so that a change of a constant is a translation error
MODULE_CONSTANTS = {
    'EMPTY_SLICE': ('(PySlice.mk (some (0 : Int)) (some (0 : Int)) none)', SLICE),
    'NULL_SLICE': ('(PySlice.mk none none none)', SLICE),
    'UNIT_SLICE': ('(PySlice.mk (some (0 : Int)) (some (1 : Int)) none)', SLICE),
}
CONSTANT_SOURCE = {'EMPTY_SLICE': 'slice(0, 0)', 'NULL_SLICE': 'slice(None)', 'UNIT_SLICE': 'slice(0, 1)'}

LEAN_TY = {INT: 'Int', SLICE: 'PySlice', LIST: 'List Int', BOOL: 'Bool', OPT: 'Option Int', TUP: 'Int × Int',
           OPTTUP: 'Option (Int × Int)', PAIRS: 'List (Int × Int)', YPAIR: 'Int × PySlice', YPAIRS: 'List (Int × PySlice)'}


def lean_ty(t, paren=False):
    """Lean type of a type tag; `paren`: as an argument of a type constructor"""
    inner = maybe_inner(t)
    r = ('Option ' + lean_ty(inner, True)) if inner is not None else LEAN_TY[t]
    return f'({r})' if paren and ' ' in r else r


class Env:
    def __init__(self, vars=None, narrow=None, counter=None):
        self.vars = dict(vars or {})      # python name -> (lean term, type)
        self.narrow = dict(narrow or {})  # ast.dump(expr) -> (lean term, type)
        self.counter = counter if counter is not None else [0]

    def copy(self):
        return Env(self.vars, self.narrow, self.counter)

    def fresh(self, base):
        self.counter[0] += 1
        return f'{base}_{self.counter[0]}'


def ind(s, n=2):
    return textwrap.indent(s, ' ' * n)


OUT = '$out'      # pseudo-variable of a generator: the list of values yielded so far (not a Python identifier)


class Translator:
    def __init__(self, ret_type, resolver=None):
        self.ret_type = ret_type
        self.slice_fields = {}
        self.resolver = resolver      # (receiver name, method name) -> (lean name, [parameter types], return type)
        # generator mode (set by translate_generator)
        self.locals = None            # declared type of every local of a generator; None: plain function
        self.in_loop = False
        self.on_end = self.fall_off   # what the end of the current statement list means

    def fall_off(self, env):
        raise TranslationError('function may fall off the end (returns None)')

    # ---- expressions (CPS) -------------------------------------------------
    def tx(self, e, env, k):
        """Translate expression `e`; call k(term, type, env) for the rest. Returns Lean text."""
        key = ast.dump(e)
        if key in env.narrow:
            t, ty = env.narrow[key]
            return k(t, ty, env)
        if isinstance(e, ast.Constant):
            if e.value is None:
                return k('none', NONE, env)
            if isinstance(e.value, bool):
                return k('true' if e.value else 'false', BOOL, env)
            if isinstance(e.value, int):
                return k(f'({e.value} : Int)', INT, env)
            raise TranslationError(f'constant {e.value!r}')
        if isinstance(e, ast.Name):
            if e.id in MODULE_CONSTANTS and e.id not in env.vars:
                t, ty = MODULE_CONSTANTS[e.id]
                return k(t, ty, env)
            if e.id not in env.vars:
                if self.locals is not None and e.id in self.locals:
                    return 'none  -- UnboundLocalError'
                raise TranslationError(f'unknown name {e.id}')
            t, ty = env.vars[e.id]
            if ty in OPT_INNER:
                return self.force_opt(t, key, env, k, OPT_INNER[ty])
            if maybe_inner(ty) is not None:
                return self.force_bound(t, key, env, k, maybe_inner(ty))
            return k(t, ty, env)
        if isinstance(e, ast.Attribute):
            return self.tx(e.value, env, lambda t, ty, env2: self.attr(e, t, ty, key, env2, k))
        if isinstance(e, ast.UnaryOp) and isinstance(e.op, ast.USub):
            return self.tx(e.operand, env, lambda t, ty, env2: self.need_int(ty, lambda: k(f'(-{t})', INT, env2)))
        if isinstance(e, ast.BinOp):
            return self.tx(e.left, env, lambda a, ta, e1: self.tx(e.right, e1, lambda b, tb, e2: self.binop(e.op, a, ta, b, tb, e2, k)))
        if isinstance(e, ast.IfExp):
            return self.cond(e.test, env,
                             lambda et: self.tx(e.body, et, k),
                             lambda ef: self.tx(e.orelse, ef, k))
        if isinstance(e, ast.Subscript):
            return self.tx(e.value, env, lambda t, ty, e1: self.subscript(e, t, ty, e1, k))
        if isinstance(e, ast.Call) and isinstance(e.func, ast.Name):
            return self.call(e, env, k)
        if isinstance(e, ast.Call) and isinstance(e.func, ast.Attribute) and isinstance(e.func.value, ast.Name):
            return self.method_call(e, env, k)
        if isinstance(e, (ast.Tuple, ast.List)) and isinstance(e.ctx, ast.Load):
            return self.display(e, env, k)
        raise TranslationError(f'expression outside subset: {ast.unparse(e)}')

    def need_int(self, ty, cont):
        if ty == INT:
            return cont()
        if ty == NONE:
            return 'none  -- TypeError: arithmetic on None'
        raise TranslationError(f'integer expected, got {ty}')

    def force_opt(self, term, key, env, k, inner=INT):
        v = env.fresh('v')
        en, es = env.copy(), env.copy()
        en.narrow[key] = ('none', NONE)
        es.narrow[key] = (v, inner)
        return (f'match {term} with\n'
                f'| none =>\n{ind(k("none", NONE, en))}\n'
                f'| some {v} =>\n{ind(k(v, inner, es))}')

    def force_bound(self, term, key, env, k, inner):
        """read a local that may be unbound (loop state `Option inner`, none = unbound)"""
        v = env.fresh('v')
        es = env.copy()
        es.narrow[key] = (v, inner)
        return f'match {term} with\n| none => none  -- UnboundLocalError\n| some {v} =>\n' + ind(k(v, inner, es))

    def display(self, e, env, k):
        """tuple display (a, b) : (int, int) | (int, slice); list display [a, ...] of ints"""
        def many(i, acc, env_i):
            if i == len(e.elts):
                return finish(acc, env_i)
            if isinstance(e.elts[i], ast.Starred):
                raise TranslationError(f'starred element: {ast.unparse(e)}')
            return self.tx(e.elts[i], env_i, lambda t, ty, e2: many(i + 1, acc + [(t, ty)], e2))

        def finish(acc, env_f):
            tys = [ty for _, ty in acc]
            if isinstance(e, ast.Tuple):
                if tys == [INT, INT]:
                    return k(f'({acc[0][0]}, {acc[1][0]})', TUP, env_f)
                if tys == [INT, SLICE]:
                    return k(f'({acc[0][0]}, {acc[1][0]})', YPAIR, env_f)
                raise TranslationError(f'tuple display of {tys}: {ast.unparse(e)}')
            if any(ty != INT for ty in tys):
                raise TranslationError(f'list display of {tys}: {ast.unparse(e)}')
            if not acc:
                return k('([] : List Int)', LIST, env_f)
            return k('[' + ', '.join(t for t, _ in acc) + ']', LIST, env_f)
        return many(0, [], env)

    def method_call(self, e, env, k):
        """cls.f(args): f a translated static / class method of the same class; none (f raised) is propagated"""
        recv, meth = e.func.value.id, e.func.attr
        if e.keywords or any(isinstance(a, ast.Starred) for a in e.args):
            raise TranslationError(f'keyword / starred arguments: {ast.unparse(e)}')
        if self.resolver is None or recv in env.vars:
            raise TranslationError(f'call outside subset: {ast.unparse(e)}')
        lean_name, ptys, rty = self.resolver(recv, meth)

        def many(i, acc, env_i):
            if i == len(e.args):
                return finish(acc, env_i)
            return self.tx(e.args[i], env_i, lambda t, ty, e2: many(i + 1, acc + [(t, ty)], e2))

        def finish(acc, env_f):
            if [ty for _, ty in acc] != list(ptys):
                raise TranslationError(f'{ast.unparse(e)}: argument types {[ty for _, ty in acc]}, {meth} is translated for {list(ptys)}')
            r = env_f.fresh('r')
            e2 = env_f.copy()
            return (f'match {lean_name} ' + ' '.join(t for t, _ in acc) + f' with\n| none => none  -- {meth} raised\n| some {r} =>\n'
                    + ind(k(r, rty, e2)))
        return many(0, [], env)

    def attr(self, e, t, ty, key, env, k):
        if ty == SLICE and e.attr in ('start', 'stop', 'step'):
            return self.force_opt(f'{t}.{e.attr}', key, env, k)
        raise TranslationError(f'attribute outside subset: {ast.unparse(e)}')

    def binop(self, op, a, ta, b, tb, env, k):
        if ta == NONE or tb == NONE:
            return 'none  -- TypeError: arithmetic on None'
        if ta != INT or tb != INT:
            raise TranslationError(f'arithmetic on {ta}, {tb}')
        if isinstance(op, ast.Add):
            return k(f'({a} + {b})', INT, env)
        if isinstance(op, ast.Sub):
            return k(f'({a} - {b})', INT, env)
        if isinstance(op, ast.Mult):
            return k(f'({a} * {b})', INT, env)
        if isinstance(op, (ast.FloorDiv, ast.Mod)):
            fn = 'Int.fdiv' if isinstance(op, ast.FloorDiv) else 'Int.fmod'
            return (f'if {b} = 0 then none  -- ZeroDivisionError\nelse\n' + ind(k(f'({fn} {a} {b})', INT, env)))
        raise TranslationError(f'operator {op.__class__.__name__}')

    def subscript(self, e, t, ty, env, k):
        idx = e.slice
        if ty == NONE:
            return 'none  -- TypeError: None is not subscriptable'
        if ty in (TUP, YPAIR):
            if isinstance(idx, ast.Constant) and idx.value in (0, 1) and not isinstance(idx.value, bool):
                return k(f'{t}.{idx.value + 1}', INT if (ty == TUP or idx.value == 0) else SLICE, env)
            raise TranslationError(f'subscript outside subset: {ast.unparse(e)}')
        if ty != LIST:
            raise TranslationError(f'subscript on {ty}')
        if isinstance(idx, ast.Constant) and idx.value == 0:
            fn = 'head?'
        elif isinstance(idx, ast.UnaryOp) and isinstance(idx.op, ast.USub) and isinstance(idx.operand, ast.Constant) and idx.operand.value == 1:
            fn = 'getLast?'
        else:
            raise TranslationError(f'subscript outside subset: {ast.unparse(e)}')
        v = env.fresh('x')
        e2 = env.copy()
        e2.narrow[ast.dump(e)] = (v, INT)
        return (f'match {t}.{fn} with\n| none => none  -- IndexError\n| some {v} =>\n' + ind(k(v, INT, e2)))

    def call(self, e, env, k):
        fn = e.func.id
        if e.keywords:
            raise TranslationError('keyword arguments')
        args = e.args

        def many(i, acc, env_i):
            if i == len(args):
                return finish(acc, env_i)
            return self.tx(args[i], env_i, lambda t, ty, e2: many(i + 1, acc + [(t, ty)], e2))

        def finish(acc, env_f):
            if fn == 'abs' and len(acc) == 1:
                (a, ta), = acc
                return self.need_int(ta, lambda: k(f'((Int.natAbs {a} : Nat) : Int)', INT, env_f))
            if fn in ('min', 'max') and len(acc) == 2:
                (a, ta), (b, tb) = acc
                if ta != INT or tb != INT:
                    if NONE in (ta, tb):
                        return 'none  -- TypeError: min/max with None'
                    raise TranslationError('min/max operands')
                return k(f'({fn} {a} {b})', INT, env_f)
            if fn == 'len' and len(acc) == 1:
                (a, ta), = acc
                if ta != LIST:
                    raise TranslationError('len of non-list')
                return k(f'(({a}.length : Nat) : Int)', INT, env_f)
            if fn == 'slice' and len(acc) in (2, 3):
                parts = []
                for a, ta in acc:
                    if ta == INT:
                        parts.append(f'(some {a})')
                    elif ta == NONE:
                        parts.append('none')
                    else:
                        raise TranslationError('slice() argument type')
                if len(parts) == 2:
                    parts.append('none')
                term = '(PySlice.mk ' + ' '.join(parts) + ')'
                # remember the fields of a constructed slice: reading them back needs no match
                self.slice_fields[term] = [(a, ta) for a, ta in acc] + ([('none', NONE)] if len(acc) == 2 else [])
                return k(term, SLICE, env_f)
            raise TranslationError(f'call outside subset: {ast.unparse(e)}')

        return many(0, [], env)

    # ---- tests (short-circuit, path-sensitive) ------------------------------
    def cond(self, test, env, kt, kf):
        if isinstance(test, ast.BoolOp):
            vals = test.values
            if isinstance(test.op, ast.Or):
                def go(i, env_i):
                    if i == len(vals) - 1:
                        return self.cond(vals[i], env_i, kt, kf)
                    return self.cond(vals[i], env_i, kt, lambda ef: go(i + 1, ef))
                return go(0, env)
            else:
                def go(i, env_i):
                    if i == len(vals) - 1:
                        return self.cond(vals[i], env_i, kt, kf)
                    return self.cond(vals[i], env_i, lambda et: go(i + 1, et), kf)
                return go(0, env)
        if isinstance(test, ast.UnaryOp) and isinstance(test.op, ast.Not):
            return self.cond(test.operand, env, kf, kt)
        if isinstance(test, ast.Compare) and len(test.ops) == 1:
            op = test.ops[0]
            left, right = test.left, test.comparators[0]
            if isinstance(op, (ast.Is, ast.IsNot)) and isinstance(right, ast.Constant) and right.value is None:
                yes, no = (kt, kf) if isinstance(op, ast.Is) else (kf, kt)
                return self.tx(left, env, lambda t, ty, e2: yes(e2) if ty == NONE else no(e2))
            sym = {ast.Lt: '<', ast.LtE: '≤', ast.Gt: '>', ast.GtE: '≥', ast.Eq: '=', ast.NotEq: '≠'}.get(type(op))
            if sym is None:
                raise TranslationError(f'comparison {ast.unparse(test)}')

            def cmp(a, ta, b, tb, e2):
                if NONE in (ta, tb):
                    if sym == '=':
                        return (kt if ta == tb else kf)(e2)
                    if sym == '≠':
                        return (kf if ta == tb else kt)(e2)
                    return 'none  -- TypeError: ordering comparison with None'
                if ta != INT or tb != INT:
                    raise TranslationError(f'comparison of {ta}, {tb}')
                return f'if {a} {sym} {b} then\n{ind(kt(e2.copy()))}\nelse\n{ind(kf(e2.copy()))}'
            return self.tx(left, env, lambda a, ta, e1: self.tx(right, e1, lambda b, tb, e2: cmp(a, ta, b, tb, e2)))
        if isinstance(test, (ast.Name, ast.Subscript, ast.Attribute)):
            # truthiness of a value: None and the empty list are falsy, a 2-tuple is never empty (hence truthy)
            def truth(t, ty, e2):
                if ty == NONE:
                    return kf(e2)
                if ty in (TUP, YPAIR):
                    return kt(e2)
                if ty in LIST_ELEM:
                    return f'if {t}.isEmpty then\n{ind(kf(e2.copy()))}\nelse\n{ind(kt(e2.copy()))}'
                raise TranslationError(f'truthiness of {ty}: {ast.unparse(test)}')
            return self.tx(test, env, truth)
        raise TranslationError(f'test outside subset: {ast.unparse(test)}')

    # ---- statements -----------------------------------------------------------
    def check_assign(self, name, ty):
        """generator mode: every assignment agrees with the declared type of the local"""
        if name in ('cls', 'self'):
            raise TranslationError(f'assignment to {name}')
        if self.locals is None:
            return
        d = self.locals.get(name)
        if d is None:
            raise TranslationError(f'assignment to {name}, which is not a local (parameter / loop variable)')
        if not (ty == d or (d in OPT_INNER and ty in (NONE, OPT_INNER[d]))):
            raise TranslationError(f'{name} is declared {d}, assigned {ty}')

    def block(self, stmts, env):
        if not stmts:
            return self.on_end(env)
        s, rest = stmts[0], stmts[1:]
        if isinstance(s, ast.Expr) and isinstance(s.value, ast.Constant) and isinstance(s.value.value, str):
            return self.block(rest, env)
        if isinstance(s, ast.AnnAssign) and isinstance(s.target, ast.Name) and s.value is not None and s.simple:
            # the annotation was read by declared_locals; the assignment is checked against it by check_assign
            if self.locals is None:
                raise TranslationError(f'annotated local outside a generator: {ast.unparse(s)[:80]}')
            s = ast.Assign(targets=[ast.Name(id=s.target.id, ctx=ast.Store())], value=s.value)
        if isinstance(s, ast.Continue):
            if not self.in_loop:
                raise TranslationError('continue outside the loop')
            return self.on_end(env)      # the rest of the body is not executed
        if isinstance(s, ast.Expr) and isinstance(s.value, ast.Yield):
            if self.locals is None or s.value.value is None:
                raise TranslationError(f'statement outside subset: {ast.unparse(s)[:80]}')

            def emit(t, ty, e2):
                if ty != LIST_ELEM[self.ret_type]:
                    raise TranslationError(f'yield of {ty}, expected {LIST_ELEM[self.ret_type]}')
                e3 = e2.copy()
                out, _ = e3.vars[OUT]
                ln = e3.fresh('out')
                e3.vars[OUT] = (ln, self.ret_type)
                return f'let {ln} := ({out} ++ [{t}])\n' + self.block(rest, e3)
            return self.tx(s.value.value, env, emit)
        if (isinstance(s, ast.Expr) and isinstance(s.value, ast.Call) and isinstance(s.value.func, ast.Attribute)
                and s.value.func.attr == 'append' and isinstance(s.value.func.value, ast.Name)
                and len(s.value.args) == 1 and not s.value.keywords and not isinstance(s.value.args[0], ast.Starred)):
            # <local list>.append(<int>): only a list created by a list display of this function (never aliased)
            name = s.value.func.value.id
            if self.locals is None or self.locals.get(name) != LIST:
                raise TranslationError(f'append to {name}, which is not a list created by this function')

            def with_list(l, tl, e1):
                if tl != LIST:
                    raise TranslationError(f'append to {tl}')

                def with_item(x, tx_, e2):
                    if tx_ != INT:
                        raise TranslationError(f'append of {tx_}')
                    e3 = e2.copy()
                    e3.narrow = {kk: vv for kk, vv in e3.narrow.items() if f"id='{name}'" not in kk}
                    ln = e3.fresh(name)
                    e3.vars[name] = (ln, LIST)
                    return f'let {ln} := ({l} ++ [{x}])\n' + self.block(rest, e3)
                return self.tx(s.value.args[0], e1, with_item)
            return self.tx(s.value.func.value, env, with_list)
        if isinstance(s, ast.Return):
            if self.locals is not None:
                raise TranslationError('return in a generator')
            if s.value is None:
                raise TranslationError('bare return')
            def fin(t, ty, e2):
                if ty != self.ret_type:
                    raise TranslationError(f'return type {ty}, expected {self.ret_type}')
                return f'some {t}'
            return self.tx(s.value, env, fin)
        if isinstance(s, ast.Assign) and len(s.targets) == 1 and isinstance(s.targets[0], ast.Name):
            name = s.targets[0].id

            def bind(t, ty, e2):
                self.check_assign(name, ty)
                e3 = e2.copy()
                # drop narrowings that mention the re-assigned name
                e3.narrow = {kk: vv for kk, vv in e3.narrow.items() if f"id='{name}'" not in kk}
                if ty == NONE:
                    e3.vars[name] = ('none', NONE)
                    return self.block(rest, e3)
                ln = e3.fresh(name)
                e3.vars[name] = (ln, ty)
                if ty == SLICE and t in self.slice_fields:
                    for attr, (ft, fty) in zip(('start', 'stop', 'step'), self.slice_fields[t]):
                        e3.narrow[ast.dump(ast.parse(f'{name}.{attr}', mode='eval').body)] = (ft, fty)
                return f'let {ln} := {t}\n' + self.block(rest, e3)
            return self.tx(s.value, env, bind)
        if (isinstance(s, ast.Assign) and len(s.targets) == 1 and isinstance(s.targets[0], ast.Tuple)
                and len(s.targets[0].elts) == 3 and all(isinstance(x, ast.Name) for x in s.targets[0].elts)
                and isinstance(s.value, ast.Call) and isinstance(s.value.func, ast.Attribute)
                and s.value.func.attr == 'indices' and len(s.value.args) == 1 and not s.value.keywords):
            # a, b, c = <slice>.indices(<int>)  -- CPython PySlice_AdjustIndices (ValueError on step 0 / negative length)
            names = [x.id for x in s.targets[0].elts]
            for name in names:
                self.check_assign(name, INT)

            def with_slice(t, ty, e1):
                if ty != SLICE:
                    raise TranslationError('.indices on a non-slice')

                def with_len(n, tn, e2):
                    if tn != INT:
                        raise TranslationError('.indices argument')
                    e3 = e2.copy()
                    lns = []
                    for name in names:
                        e3.narrow = {kk: vv for kk, vv in e3.narrow.items() if f"id='{name}'" not in kk}
                        ln = e3.fresh(name)
                        e3.vars[name] = (ln, INT)
                        lns.append(ln)
                    return (f'if {n} < 0 then none  -- ValueError: length should not be negative\nelse\n'
                            + ind(f'match PySlice.indices {t} (Int.toNat {n}) with\n| .error _ => none  -- ValueError: slice step cannot be zero\n'
                                  f'| .ok ({lns[0]}, {lns[1]}, {lns[2]}) =>\n' + ind(self.block(rest, e3))))
                return self.tx(s.value.args[0], e1, with_len)
            return self.tx(s.value.func.value, env, with_slice)
        if isinstance(s, ast.If):
            return self.cond(s.test, env,
                             lambda et: self.block(list(s.body) + rest, et),
                             lambda ef: self.block(list(s.orelse) + rest, ef))
        raise TranslationError(f'statement outside subset: {ast.unparse(s)[:80]}')


def find_func(tree, cls, name):
    body = tree.body
    if cls is not None:
        for n in body:
            if isinstance(n, ast.ClassDef) and n.name == cls:
                body = n.body
                break
        else:
            raise TranslationError(f'class {cls} not found')
    for n in body:
        if isinstance(n, ast.FunctionDef) and n.name == name:
            return n
    raise TranslationError(f'function {name} not found')


def method_kind(fn):
    kinds = [d.id for d in fn.decorator_list if isinstance(d, ast.Name)]
    if len(kinds) != len(fn.decorator_list) or any(k not in ('staticmethod', 'classmethod') for k in kinds) or len(kinds) > 1:
        raise TranslationError(f'{fn.name}: decorators outside subset')
    return kinds[0] if kinds else 'plain'


def parse_annotation(a):
    """type tag of a local's annotation"""
    txt = ast.unparse(a).replace('typing.', '').replace('tp.', '').replace(' ', '')
    table = {'int': INT, 'Optional[int]': OPT, 'Optional[Tuple[int,int]]': OPTTUP}
    if txt not in table:
        raise TranslationError(f'annotation outside subset: {ast.unparse(a)}')
    return table[txt]


def declared_locals(fn, fixed):
    """name -> declared type of every name the function assigns, in order of first assignment.
    `fixed`: names that must never be assigned (parameters, loop variables)."""
    ann, assigned, values = {}, [], {}

    def note(name, value):
        if name in fixed:
            raise TranslationError(f'assignment to {name} (parameter / loop variable)')
        if name in RESERVED:
            raise TranslationError(f'local named {name}')
        if name not in assigned:
            assigned.append(name)
        values.setdefault(name, []).append(value)

    for n in ast.walk(fn):
        if isinstance(n, ast.AnnAssign):
            if not isinstance(n.target, ast.Name) or n.value is None:
                raise TranslationError(f'statement outside subset: {ast.unparse(n)[:80]}')
            t = parse_annotation(n.annotation)
            if ann.setdefault(n.target.id, t) != t:
                raise TranslationError(f'{n.target.id}: conflicting annotations')
        elif isinstance(n, (ast.NamedExpr, ast.AugAssign, ast.Delete, ast.Global, ast.Nonlocal, ast.With, ast.Import, ast.ImportFrom,
                            ast.Try, ast.While, ast.FunctionDef, ast.Lambda, ast.ClassDef, ast.ListComp, ast.GeneratorExp)) and n is not fn:
            raise TranslationError(f'statement outside subset: {ast.unparse(n)[:80]}')
    # order of first assignment = source order (ast.walk is breadth-first: sort by position)
    stores = sorted((n for n in ast.walk(fn) if isinstance(n, (ast.Assign, ast.AnnAssign))), key=lambda n: (n.lineno, n.col_offset))
    for n in stores:
        targets = [n.target] if isinstance(n, ast.AnnAssign) else n.targets
        for t in targets:
            if isinstance(t, ast.Name):
                note(t.id, n.value)
            elif isinstance(t, ast.Tuple) and all(isinstance(x, ast.Name) for x in t.elts):
                for x in t.elts:
                    note(x.id, None)
            else:
                raise TranslationError(f'assignment target outside subset: {ast.unparse(n)[:80]}')
    out = {}
    for name in assigned:
        if name in ann:
            out[name] = ann[name]
        elif all(isinstance(v, ast.List) for v in values[name]):
            out[name] = LIST         # every assignment creates a fresh list: appending to it is not visible elsewhere
        elif all(v is None for v in values[name]):
            out[name] = INT          # a, b, c = s.indices(n)
        else:
            raise TranslationError(f'local {name}: no annotation and not only assigned list displays')
    return out


def translate_generator(fn, tr, params, ptypes, rtype, lean_name):
    """<prelude>; for ... in <parameter>: <body>; <epilogue>  with yields  ->  (<name>_loop, <name>)"""
    if rtype not in LIST_ELEM:
        raise TranslationError(f'generator with return type {rtype}')
    loops = [i for i, st in enumerate(fn.body) if isinstance(st, ast.For)]
    if len(loops) != 1:
        raise TranslationError(f'{len(loops)} top-level for loops (exactly one expected)')
    loop = fn.body[loops[0]]
    prelude, epilogue = list(fn.body[:loops[0]]), list(fn.body[loops[0] + 1:])
    if loop.orelse:
        raise TranslationError('for ... else')
    if not (isinstance(loop.iter, ast.Name) and ptypes.get(loop.iter.id) in (LIST, PAIRS)):
        raise TranslationError(f'loop over {ast.unparse(loop.iter)}: only a parameter that is a list of ints / pairs of ints')
    elem = LIST_ELEM[ptypes[loop.iter.id]]
    if elem == INT and isinstance(loop.target, ast.Name):
        targets = [loop.target.id]
    elif elem == TUP and isinstance(loop.target, ast.Tuple) and len(loop.target.elts) == 2 and all(isinstance(x, ast.Name) for x in loop.target.elts):
        targets = [x.id for x in loop.target.elts]
    else:
        raise TranslationError(f'loop target {ast.unparse(loop.target)} for elements of type {elem}')
    all_args = [a.arg for a in fn.args.args]
    if len(set(targets)) != len(targets) or set(targets) & (set(all_args) | RESERVED):
        raise TranslationError(f'loop variables {targets}')
    loop_name = f'{lean_name}_loop'
    tr.locals = declared_locals(fn, set(all_args) | set(targets))
    if loop_name in tr.locals or loop_name in all_args or loop_name in targets:
        raise TranslationError(f'name clash with {loop_name}')
    # the state: one argument per local; a local the prelude does not assign unconditionally may be unbound
    bound = set()
    for st in prelude:
        if isinstance(st, ast.Assign) and len(st.targets) == 1 and isinstance(st.targets[0], ast.Name):
            bound.add(st.targets[0].id)
        elif isinstance(st, ast.AnnAssign) and isinstance(st.target, ast.Name) and st.value is not None:
            bound.add(st.target.id)
    state = []
    for name, d in tr.locals.items():
        if name in bound:
            state.append((name, d))
        elif d in OPT_INNER:
            raise TranslationError(f'Optional local {name} is not initialised before the loop')
        else:
            state.append((name, MAYBE(d)))

    def current(env, name):
        key = ast.dump(ast.Name(id=name, ctx=ast.Load()))
        if key in env.narrow:
            return env.narrow[key]
        return env.vars.get(name, (None, UNBOUND))

    def coerce(name, t, ty, sty):
        if ty == sty:
            return t
        if sty in OPT_INNER and ty == NONE:
            return 'none'
        if sty in OPT_INNER and ty == OPT_INNER[sty]:
            return f'(some {t})'
        if maybe_inner(sty) is not None and ty == UNBOUND:
            return 'none'
        if maybe_inner(sty) is not None and ty == maybe_inner(sty):
            return f'(some {t})'
        raise TranslationError(f'{name}: {ty} where the loop state holds {sty}')

    def call_loop(lst):
        def end(env):
            args = [coerce(name, *current(env, name), sty) for name, sty in state]
            return f'{loop_name} {lst} ' + ' '.join(args + [env.vars[OUT][0]])
        return end

    def finish(env):
        return f'some {env.vars[OUT][0]}'

    def state_env(with_targets):
        env = Env()
        for p in params:
            if p != loop.iter.id:          # the list being consumed is not readable inside / after the loop
                env.vars[p] = (p, ptypes[p])
        for name, sty in state:
            env.vars[name] = (name, sty)
        if with_targets:
            for x in targets:
                env.vars[x] = (x, INT)
        env.vars[OUT] = ('out_', rtype)
        return env

    # main function: the prelude, then the loop from the initial state
    env = Env()
    for p in params:
        env.vars[p] = (p, ptypes[p])
    env.vars[OUT] = (f'([] : {lean_ty(rtype)})', rtype)
    tr.in_loop, tr.on_end = False, call_loop(loop.iter.id)
    main_body = tr.block(prelude, env)
    tr.in_loop, tr.on_end = False, finish
    epi = tr.block(epilogue, state_env(False))
    tr.in_loop, tr.on_end = True, call_loop('rest_')
    body = tr.block(list(loop.body), state_env(True))
    pat = targets[0] if elem == INT else f'({targets[0]}, {targets[1]})'
    snames = ', '.join([name for name, _ in state] + ['out_'])
    sig = ' → '.join([lean_ty(ptypes[loop.iter.id])] + [lean_ty(sty) for _, sty in state] + [lean_ty(rtype), f'Option {lean_ty(rtype, True)}'])
    psig = ' '.join(f'({p} : {lean_ty(ptypes[p])})' for p in params)
    if len(params) != 1:
        raise TranslationError('generator with parameters other than the list it consumes')
    return (f'def {loop_name} : {sig}\n'
            f'  | [], {snames} =>\n{ind(epi, 4)}\n'
            f'  | {pat} :: rest_, {snames} =>\n{ind(body, 4)}\n\n'
            f'def {lean_name} {psig} : Option {lean_ty(rtype, True)} :=\n{ind(main_body)}\n')


def translate_function(src, cls, name, ptypes, rtype, lean_name=None, earlier=()):
    """`earlier`: the FUNCS entries before this one (the functions a `cls.f(...)` call may name)"""
    lean_name = lean_name or name
    tree = ast.parse(src)
    fn = find_func(tree, cls, name)
    kind = method_kind(fn)
    all_args = [a.arg for a in fn.args.args]
    implicit = {'plain': [], 'staticmethod': [], 'classmethod': all_args[:1]}[kind] if cls is not None else []
    if cls is not None and kind == 'plain':
        raise TranslationError(f'{name}: an instance method')
    params = all_args[len(implicit):]
    if fn.args.posonlyargs or fn.args.kwonlyargs or fn.args.vararg or fn.args.kwarg:
        raise TranslationError(f'{name}: parameter list outside subset')      # (defaults are fine: every argument is given)
    if list(ptypes) != params:
        raise TranslationError(f'{name}: parameters {params} differ from expected {list(ptypes)}')
    if set(params) & RESERVED:
        raise TranslationError(f'{name}: parameter names {params}')

    def resolver(recv, meth):
        if not (kind == 'classmethod' and implicit == [recv]):
            raise TranslationError(f'call {recv}.{meth}: the receiver is not the class of a classmethod')
        for _, ecls, ename, eptypes, ertype, elean in earlier:
            if ecls == cls and ename == meth:
                if method_kind(find_func(tree, cls, meth)) == 'plain':
                    raise TranslationError(f'{recv}.{meth}: not a static / class method')
                return elean, list(eptypes.values()), ertype
        raise TranslationError(f'call {recv}.{meth}: not a function translated before this one')

    tr = Translator(rtype, resolver)
    if any(isinstance(n, (ast.Yield, ast.YieldFrom, ast.Await)) for n in ast.walk(fn)):
        return translate_generator(fn, tr, params, ptypes, rtype, lean_name)
    env = Env()
    for p in params:
        env.vars[p] = (p, ptypes[p])
    body = tr.block(list(fn.body), env)
    sig = ' '.join(f'({p} : {lean_ty(ptypes[p])})' for p in params)
    return f'def {lean_name} {sig} : Option {lean_ty(rtype, True)} :=\n{ind(body)}\n'


def generate(repo):
    """Returns (text or None, list of error strings)."""
    out = ['-- GENERATED by tools/py2lean.py from the current static-frame source; do not edit.',
           'import SFModel.Slice', '', 'set_option linter.unusedVariables false', '', 'namespace SF.Gen', '']
    errors = []
    try:
        usrc = open(os.path.join(repo, 'static_frame/core/util.py')).read()
        for cname, cval in CONSTANT_SOURCE.items():
            found = [ast.unparse(n.value) for n in ast.parse(usrc).body
                     if isinstance(n, ast.Assign) and len(n.targets) == 1 and isinstance(n.targets[0], ast.Name) and n.targets[0].id == cname]
            if found != [cval]:
                errors.append(f'constant {cname}: source says {found}, translator assumes {cval}')
    except (OSError, SyntaxError) as ex:
        errors.append(f'constants: {ex}')
    for i, (path, cls, name, ptypes, rtype, lean_name) in enumerate(FUNCS):
        try:
            src = open(os.path.join(repo, path)).read()
            out.append(f'-- {path} :: {(cls + ".") if cls else ""}{name}')
            out.append(translate_function(src, cls, name, ptypes, rtype, lean_name,
                                          [f for f in FUNCS[:i] if f[0] == path]))
        except (TranslationError, SyntaxError, OSError) as ex:
            errors.append(f'{name}: {ex}')
            # keep the module well-formed so that unrelated bridge lemmas still build
            sig = ' '.join(f'({p} : {lean_ty(t)})' for p, t in ptypes.items())
            out.append(f'-- TRANSLATION FAILED: {ex}')
            out.append(f'def {lean_name} {sig} : Option {lean_ty(rtype, True)} := none\n')
    out.append('end SF.Gen')
    return '\n'.join(out) + '\n', errors


def main():
    ap = argparse.ArgumentParser()
    ap.add_argument('--repo', default='/repo')
    ap.add_argument('--out', default=os.path.join(os.path.dirname(os.path.dirname(os.path.abspath(__file__))), 'lean', 'SFModel', 'Gen'))
    ap.add_argument('--check', action='store_true', help='do not write: rc 1 on a translation error or if the file on disk differs')
    a = ap.parse_args()
    text, errors = generate(a.repo)
    os.makedirs(a.out, exist_ok=True)
    target = os.path.join(a.out, 'Slice.lean')
    old = open(target).read() if os.path.exists(target) else None
    if a.check:
        for e in errors:
            print('py2lean: TRANSLATION-ERROR', e)
        print('py2lean: up to date' if old == text else f'py2lean: {target} differs from the translation of the current source')
        return 1 if errors or old != text else 0
    if old != text:
        with open(target, 'w') as f:
            f.write(text)
        print(f'py2lean: wrote {target}')
    else:
        print('py2lean: unchanged')
    for e in errors:
        print('py2lean: TRANSLATION-ERROR', e)
    return 1 if errors else 0


if __name__ == '__main__':
    sys.exit(main())
