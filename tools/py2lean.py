#!/venv/bin/python
"""py2lean — translate a small subset of Python (straight-line integer / None / slice logic)
from static-frame's *current* source into Lean 4 definitions.

The generated definitions live in lean/SFModel/Gen/*.lean, are regenerated on every check run and
are tied to the hand-written reference definitions by kernel-checked bridge lemmas
(lean/SFModel/Bridge.lean).  A source change that alters a translated function therefore breaks a
proof obligation (or the translation itself when it leaves the subset).

Semantics of the subset (trusted; cross-checked by harness/sfv/props/gen_xcheck on a grid):
  * every generated function returns `Option T`; `none` = the Python code raises
    (IndexError on `l[0]` of an empty list, ZeroDivisionError, TypeError on None arithmetic)
  * ints are unbounded (`Int`), `//` is `Int.fdiv`, `%` is `Int.fmod`
  * an expression that may be None (`slice.start/stop/step`, a local bound to one) is never given a
    default: reading it forces a `match`, and each arm is translated with that knowledge
    (path-sensitive typing), mirroring Python's dynamic behaviour on that path
  * `a or b` / `a and b` / `not a` in tests are short-circuit; conditional expressions are
    translated by duplicating the continuation in both arms

usage: py2lean.py [--repo /repo] [--out lean/SFModel/Gen] [--check]
"""
from __future__ import annotations

import argparse
import ast
import os
import sys
import textwrap

INT, OPT, NONE, SLICE, LIST, BOOL = 'Int', 'OptInt', 'NoneT', 'PySlice', 'ListInt', 'Bool'


class TranslationError(Exception):
    pass


# (module file, class or None, function, parameter types, return type, lean name)
FUNCS = [
    ('static_frame/core/util.py', None, 'slice_to_ascending_slice',
     {'key': SLICE, 'size': INT}, SLICE),
    ('static_frame/core/util.py', None, 'slice_to_inclusive_slice',
     {'key': SLICE, 'offset': INT}, SLICE),
    ('static_frame/core/type_blocks.py', 'TypeBlocks', '_cols_to_slice',
     {'indices': LIST}, SLICE),
]

# module-level constants of static_frame.core.util the translated functions may name; their values are
# re-read from the source by `check_constants` so that a change of a constant is a translation error
MODULE_CONSTANTS = {
    'EMPTY_SLICE': ('(PySlice.mk (some (0 : Int)) (some (0 : Int)) none)', SLICE),
    'NULL_SLICE': ('(PySlice.mk none none none)', SLICE),
    'UNIT_SLICE': ('(PySlice.mk (some (0 : Int)) (some (1 : Int)) none)', SLICE),
}
CONSTANT_SOURCE = {'EMPTY_SLICE': 'slice(0, 0)', 'NULL_SLICE': 'slice(None)', 'UNIT_SLICE': 'slice(0, 1)'}

LEAN_TY = {INT: 'Int', SLICE: 'PySlice', LIST: 'List Int', BOOL: 'Bool'}


class Env:
    def __init__(self, vars=None, narrow=None, counter=None):
        self.vars = dict(vars or {})      # python name -> (lean term, type)
        self.narrow = dict(narrow or {})  # ast.dump(expr) -> (lean term, type)
        self.counter = counter if counter is not None else [0]

    def copy(self):
        return Env(self.vars, self.narrow, self.counter)

    def fresh(self, base):
        self.counter[0] += 1
        return f'{base}_{self.counter[0]}'


def ind(s, n=2):
    return textwrap.indent(s, ' ' * n)


class Translator:
    def __init__(self, ret_type):
        self.ret_type = ret_type
        self.slice_fields = {}

    # ---- expressions (CPS) -------------------------------------------------
    def tx(self, e, env, k):
        """Translate expression `e`; call k(term, type, env) for the rest. Returns Lean text."""
        key = ast.dump(e)
        if key in env.narrow:
            t, ty = env.narrow[key]
            return k(t, ty, env)
        if isinstance(e, ast.Constant):
            if e.value is None:
                return k('none', NONE, env)
            if isinstance(e.value, bool):
                return k('true' if e.value else 'false', BOOL, env)
            if isinstance(e.value, int):
                return k(f'({e.value} : Int)', INT, env)
            raise TranslationError(f'constant {e.value!r}')
        if isinstance(e, ast.Name):
            if e.id in MODULE_CONSTANTS and e.id not in env.vars:
                t, ty = MODULE_CONSTANTS[e.id]
                return k(t, ty, env)
            if e.id not in env.vars:
                raise TranslationError(f'unknown name {e.id}')
            t, ty = env.vars[e.id]
            if ty == OPT:
                return self.force_opt(t, key, env, k)
            return k(t, ty, env)
        if isinstance(e, ast.Attribute):
            return self.tx(e.value, env, lambda t, ty, env2: self.attr(e, t, ty, key, env2, k))
        if isinstance(e, ast.UnaryOp) and isinstance(e.op, ast.USub):
            return self.tx(e.operand, env, lambda t, ty, env2: self.need_int(ty, lambda: k(f'(-{t})', INT, env2)))
        if isinstance(e, ast.BinOp):
            return self.tx(e.left, env, lambda a, ta, e1: self.tx(e.right, e1, lambda b, tb, e2: self.binop(e.op, a, ta, b, tb, e2, k)))
        if isinstance(e, ast.IfExp):
            return self.cond(e.test, env,
                             lambda et: self.tx(e.body, et, k),
                             lambda ef: self.tx(e.orelse, ef, k))
        if isinstance(e, ast.Subscript):
            return self.tx(e.value, env, lambda t, ty, e1: self.subscript(e, t, ty, e1, k))
        if isinstance(e, ast.Call) and isinstance(e.func, ast.Name):
            return self.call(e, env, k)
        raise TranslationError(f'expression outside subset: {ast.unparse(e)}')

    def need_int(self, ty, cont):
        if ty == INT:
            return cont()
        if ty == NONE:
            return 'none  -- TypeError: arithmetic on None'
        raise TranslationError(f'integer expected, got {ty}')

    def force_opt(self, term, key, env, k):
        v = env.fresh('v')
        en, es = env.copy(), env.copy()
        en.narrow[key] = ('none', NONE)
        es.narrow[key] = (v, INT)
        return (f'match {term} with\n'
                f'| none =>\n{ind(k("none", NONE, en))}\n'
                f'| some {v} =>\n{ind(k(v, INT, es))}')

    def attr(self, e, t, ty, key, env, k):
        if ty == SLICE and e.attr in ('start', 'stop', 'step'):
            return self.force_opt(f'{t}.{e.attr}', key, env, k)
        raise TranslationError(f'attribute outside subset: {ast.unparse(e)}')

    def binop(self, op, a, ta, b, tb, env, k):
        if ta == NONE or tb == NONE:
            return 'none  -- TypeError: arithmetic on None'
        if ta != INT or tb != INT:
            raise TranslationError(f'arithmetic on {ta}, {tb}')
        if isinstance(op, ast.Add):
            return k(f'({a} + {b})', INT, env)
        if isinstance(op, ast.Sub):
            return k(f'({a} - {b})', INT, env)
        if isinstance(op, ast.Mult):
            return k(f'({a} * {b})', INT, env)
        if isinstance(op, (ast.FloorDiv, ast.Mod)):
            fn = 'Int.fdiv' if isinstance(op, ast.FloorDiv) else 'Int.fmod'
            return (f'if {b} = 0 then none  -- ZeroDivisionError\nelse\n' + ind(k(f'({fn} {a} {b})', INT, env)))
        raise TranslationError(f'operator {op.__class__.__name__}')

    def subscript(self, e, t, ty, env, k):
        if ty != LIST:
            raise TranslationError(f'subscript on {ty}')
        idx = e.slice
        if isinstance(idx, ast.Constant) and idx.value == 0:
            fn = 'head?'
        elif isinstance(idx, ast.UnaryOp) and isinstance(idx.op, ast.USub) and isinstance(idx.operand, ast.Constant) and idx.operand.value == 1:
            fn = 'getLast?'
        else:
            raise TranslationError(f'subscript outside subset: {ast.unparse(e)}')
        v = env.fresh('x')
        e2 = env.copy()
        e2.narrow[ast.dump(e)] = (v, INT)
        return (f'match {t}.{fn} with\n| none => none  -- IndexError\n| some {v} =>\n' + ind(k(v, INT, e2)))

    def call(self, e, env, k):
        fn = e.func.id
        if e.keywords:
            raise TranslationError('keyword arguments')
        args = e.args

        def many(i, acc, env_i):
            if i == len(args):
                return finish(acc, env_i)
            return self.tx(args[i], env_i, lambda t, ty, e2: many(i + 1, acc + [(t, ty)], e2))

        def finish(acc, env_f):
            if fn == 'abs' and len(acc) == 1:
                (a, ta), = acc
                return self.need_int(ta, lambda: k(f'((Int.natAbs {a} : Nat) : Int)', INT, env_f))
            if fn in ('min', 'max') and len(acc) == 2:
                (a, ta), (b, tb) = acc
                if ta != INT or tb != INT:
                    if NONE in (ta, tb):
                        return 'none  -- TypeError: min/max with None'
                    raise TranslationError('min/max operands')
                return k(f'({fn} {a} {b})', INT, env_f)
            if fn == 'len' and len(acc) == 1:
                (a, ta), = acc
                if ta != LIST:
                    raise TranslationError('len of non-list')
                return k(f'(({a}.length : Nat) : Int)', INT, env_f)
            if fn == 'slice' and len(acc) in (2, 3):
                parts = []
                for a, ta in acc:
                    if ta == INT:
                        parts.append(f'(some {a})')
                    elif ta == NONE:
                        parts.append('none')
                    else:
                        raise TranslationError('slice() argument type')
                if len(parts) == 2:
                    parts.append('none')
                term = '(PySlice.mk ' + ' '.join(parts) + ')'
                # remember the fields of a constructed slice: reading them back needs no match
                self.slice_fields[term] = [(a, ta) for a, ta in acc] + ([('none', NONE)] if len(acc) == 2 else [])
                return k(term, SLICE, env_f)
            raise TranslationError(f'call outside subset: {ast.unparse(e)}')

        return many(0, [], env)

    # ---- tests (short-circuit, path-sensitive) ------------------------------
    def cond(self, test, env, kt, kf):
        if isinstance(test, ast.BoolOp):
            vals = test.values
            if isinstance(test.op, ast.Or):
                def go(i, env_i):
                    if i == len(vals) - 1:
                        return self.cond(vals[i], env_i, kt, kf)
                    return self.cond(vals[i], env_i, kt, lambda ef: go(i + 1, ef))
                return go(0, env)
            else:
                def go(i, env_i):
                    if i == len(vals) - 1:
                        return self.cond(vals[i], env_i, kt, kf)
                    return self.cond(vals[i], env_i, lambda et: go(i + 1, et), kf)
                return go(0, env)
        if isinstance(test, ast.UnaryOp) and isinstance(test.op, ast.Not):
            return self.cond(test.operand, env, kf, kt)
        if isinstance(test, ast.Compare) and len(test.ops) == 1:
            op = test.ops[0]
            left, right = test.left, test.comparators[0]
            if isinstance(op, (ast.Is, ast.IsNot)) and isinstance(right, ast.Constant) and right.value is None:
                yes, no = (kt, kf) if isinstance(op, ast.Is) else (kf, kt)
                return self.tx(left, env, lambda t, ty, e2: yes(e2) if ty == NONE else no(e2))
            sym = {ast.Lt: '<', ast.LtE: '≤', ast.Gt: '>', ast.GtE: '≥', ast.Eq: '=', ast.NotEq: '≠'}.get(type(op))
            if sym is None:
                raise TranslationError(f'comparison {ast.unparse(test)}')

            def cmp(a, ta, b, tb, e2):
                if NONE in (ta, tb):
                    if sym == '=':
                        return (kt if ta == tb else kf)(e2)
                    if sym == '≠':
                        return (kf if ta == tb else kt)(e2)
                    return 'none  -- TypeError: ordering comparison with None'
                if ta != INT or tb != INT:
                    raise TranslationError(f'comparison of {ta}, {tb}')
                return f'if {a} {sym} {b} then\n{ind(kt(e2.copy()))}\nelse\n{ind(kf(e2.copy()))}'
            return self.tx(left, env, lambda a, ta, e1: self.tx(right, e1, lambda b, tb, e2: cmp(a, ta, b, tb, e2)))
        raise TranslationError(f'test outside subset: {ast.unparse(test)}')

    # ---- statements -----------------------------------------------------------
    def block(self, stmts, env):
        if not stmts:
            raise TranslationError('function may fall off the end (returns None)')
        s, rest = stmts[0], stmts[1:]
        if isinstance(s, ast.Expr) and isinstance(s.value, ast.Constant) and isinstance(s.value.value, str):
            return self.block(rest, env)
        if isinstance(s, ast.Return):
            if s.value is None:
                raise TranslationError('bare return')
            def fin(t, ty, e2):
                if ty != self.ret_type:
                    raise TranslationError(f'return type {ty}, expected {self.ret_type}')
                return f'some {t}'
            return self.tx(s.value, env, fin)
        if isinstance(s, ast.Assign) and len(s.targets) == 1 and isinstance(s.targets[0], ast.Name):
            name = s.targets[0].id

            def bind(t, ty, e2):
                e3 = e2.copy()
                # drop narrowings that mention the re-assigned name
                e3.narrow = {kk: vv for kk, vv in e3.narrow.items() if f"id='{name}'" not in kk}
                if ty == NONE:
                    e3.vars[name] = ('none', NONE)
                    return self.block(rest, e3)
                ln = e3.fresh(name)
                e3.vars[name] = (ln, ty)
                if ty == SLICE and t in self.slice_fields:
                    for attr, (ft, fty) in zip(('start', 'stop', 'step'), self.slice_fields[t]):
                        e3.narrow[ast.dump(ast.parse(f'{name}.{attr}', mode='eval').body)] = (ft, fty)
                return f'let {ln} := {t}\n' + self.block(rest, e3)
            return self.tx(s.value, env, bind)
        if (isinstance(s, ast.Assign) and len(s.targets) == 1 and isinstance(s.targets[0], ast.Tuple)
                and len(s.targets[0].elts) == 3 and all(isinstance(x, ast.Name) for x in s.targets[0].elts)
                and isinstance(s.value, ast.Call) and isinstance(s.value.func, ast.Attribute)
                and s.value.func.attr == 'indices' and len(s.value.args) == 1 and not s.value.keywords):
            # a, b, c = <slice>.indices(<int>)  -- CPython PySlice_AdjustIndices (ValueError on step 0 / negative length)
            names = [x.id for x in s.targets[0].elts]

            def with_slice(t, ty, e1):
                if ty != SLICE:
                    raise TranslationError('.indices on a non-slice')

                def with_len(n, tn, e2):
                    if tn != INT:
                        raise TranslationError('.indices argument')
                    e3 = e2.copy()
                    lns = []
                    for name in names:
                        e3.narrow = {kk: vv for kk, vv in e3.narrow.items() if f"id='{name}'" not in kk}
                        ln = e3.fresh(name)
                        e3.vars[name] = (ln, INT)
                        lns.append(ln)
                    return (f'if {n} < 0 then none  -- ValueError: length should not be negative\nelse\n'
                            + ind(f'match PySlice.indices {t} (Int.toNat {n}) with\n| .error _ => none  -- ValueError: slice step cannot be zero\n'
                                  f'| .ok ({lns[0]}, {lns[1]}, {lns[2]}) =>\n' + ind(self.block(rest, e3))))
                return self.tx(s.value.args[0], e1, with_len)
            return self.tx(s.value.func.value, env, with_slice)
        if isinstance(s, ast.If):
            return self.cond(s.test, env,
                             lambda et: self.block(list(s.body) + rest, et),
                             lambda ef: self.block(list(s.orelse) + rest, ef))
        raise TranslationError(f'statement outside subset: {ast.unparse(s)[:80]}')


def find_func(tree, cls, name):
    body = tree.body
    if cls is not None:
        for n in body:
            if isinstance(n, ast.ClassDef) and n.name == cls:
                body = n.body
                break
        else:
            raise TranslationError(f'class {cls} not found')
    for n in body:
        if isinstance(n, ast.FunctionDef) and n.name == name:
            return n
    raise TranslationError(f'function {name} not found')


def translate_function(src, cls, name, ptypes, rtype):
    fn = find_func(ast.parse(src), cls, name)
    params = [a.arg for a in fn.args.args if a.arg not in ('self', 'cls')]
    if list(ptypes) != params:
        raise TranslationError(f'{name}: parameters {params} differ from expected {list(ptypes)}')
    env = Env()
    for p in params:
        env.vars[p] = (p, ptypes[p])
    body = Translator(rtype).block(list(fn.body), env)
    sig = ' '.join(f'({p} : {LEAN_TY[ptypes[p]]})' for p in params)
    return f'def {name} {sig} : Option {LEAN_TY[rtype]} :=\n{ind(body)}\n'


def generate(repo):
    """Returns (text or None, list of error strings)."""
    out = ['-- GENERATED by tools/py2lean.py from the current static-frame source; do not edit.',
           'import SFModel.Slice', '', 'set_option linter.unusedVariables false', '', 'namespace SF.Gen', '']
    errors = []
    try:
        usrc = open(os.path.join(repo, 'static_frame/core/util.py')).read()
        for cname, cval in CONSTANT_SOURCE.items():
            found = [ast.unparse(n.value) for n in ast.parse(usrc).body
                     if isinstance(n, ast.Assign) and len(n.targets) == 1 and isinstance(n.targets[0], ast.Name) and n.targets[0].id == cname]
            if found != [cval]:
                errors.append(f'constant {cname}: source says {found}, translator assumes {cval}')
    except (OSError, SyntaxError) as ex:
        errors.append(f'constants: {ex}')
    for path, cls, name, ptypes, rtype in FUNCS:
        try:
            src = open(os.path.join(repo, path)).read()
            out.append(f'-- {path} :: {(cls + ".") if cls else ""}{name}')
            out.append(translate_function(src, cls, name, ptypes, rtype))
        except (TranslationError, SyntaxError, OSError) as ex:
            errors.append(f'{name}: {ex}')
            # keep the module well-formed so that unrelated bridge lemmas still build
            sig = ' '.join(f'({p} : {LEAN_TY[t]})' for p, t in ptypes.items())
            out.append(f'-- TRANSLATION FAILED: {ex}')
            out.append(f'def {name} {sig} : Option {LEAN_TY[rtype]} := none\n')
    out.append('end SF.Gen')
    return '\n'.join(out) + '\n', errors


def main():
    ap = argparse.ArgumentParser()
    ap.add_argument('--repo', default='/repo')
    ap.add_argument('--out', default=os.path.join(os.path.dirname(os.path.dirname(os.path.abspath(__file__))), 'lean', 'SFModel', 'Gen'))
    a = ap.parse_args()
    text, errors = generate(a.repo)
    os.makedirs(a.out, exist_ok=True)
    target = os.path.join(a.out, 'Slice.lean')
    old = open(target).read() if os.path.exists(target) else None
    if old != text:
        with open(target, 'w') as f:
            f.write(text)
        print(f'py2lean: wrote {target}')
    else:
        print('py2lean: unchanged')
    for e in errors:
        print('py2lean: TRANSLATION-ERROR', e)
    return 1 if errors else 0


if __name__ == '__main__':
    sys.exit(main())
