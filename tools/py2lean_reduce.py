#!/venv/bin/python
"""py2lean_reduce - translate the DECISION SKELETONS of static-frame's reduction helpers from the *current* source
into Lean 4 (lean/SFModel/Gen/Reduce.lean).  The bridge lemmas in lean/SFModel/BridgeReduce.lean prove that the
generated definitions, run through the evaluators of lean/SFModel/ReduceSem.lean, equal the hand-written mirrored
definitions of lean/SFModel/Reduce.lean (`desc`, `Red.apply`, `logicalSkipna`, `argBest1d`, `argBest2d`) the C15 theorems
are about.  A source change that alters a branch, a kind constant, a comparison, the order of two tests, a flag of the
descriptor table or the function object of a pair changes the generated text and breaks a proof obligation; a statement
outside the subset is a TRANSLATION-ERROR (the generated stub then makes the bridge lemmas fail) - never a guess, never a
skip.

What is translated (every constant, comparison, branch order and flag comes from the source text):
  static_frame/core/util.py
    * `ufunc_axis_skipna`       -> `ufunc_axis_skipna (kind ndim skipna ufunc len0) : ARoute`
          which of ufunc / ufunc_skipna is applied to which preparation of the array (as is, `array[is_not_none]`,
          None replaced by NaN, `astype(object)`), or the early `return np.nan`
    * `_ufunc_logical_skipna`   -> `_ufunc_logical_skipna (ufunc kind skipna ndim axis len0 anyM allM) : LRoute`
          the exception raised / the constant returned / what `ufunc` is applied to (the array, `array != ''`,
          the copy with the missing cells filled, `astype(bool)`)
    * `ufunc_all`, `ufunc_any`, `ufunc_nanall`, `ufunc_nanany` -> (function object, skipna) they pass on
    * `_argminmax_1d`, `_argminmax_2d` -> `ARoute` / `G2Route`; the module-level `partial(...)` pairs argmin_1d ... argmax_2d
    * module constants are resolved from the source: DTYPE_*_KIND(S), UFUNC_AXIS_STR_TO_OBJ, DTYPE_FLOAT_DEFAULT, DTYPES_* ...
  static_frame/core/container.py
    * `ContainerOperand.{all, any, sum, min, max, mean, median, std, var, prod, cumsum, cumprod}`: what each passes to
      `_ufunc_axis_skipna` / `_ufunc_shape_skipna` -> `desc` (composable, size_one_unity, dtypes), `ufuncPair`, `viaShape`,
      `defaults` (axis, skipna)
  static_frame/core/interface.py
    * `UFUNC_AXIS_SKIPNA`, `UFUNC_SHAPE_SKIPNA` (reference tables of the pairs) -> `interface_pairs`

Subset of a function body (trusted semantics: lean/SFModel/ReduceSem.lean):
  statements  docstring; `if / elif / else` (the continuation is duplicated into both arms: path-sensitive; a test that is a
              bare Boolean parameter is remembered on the path, so a second `if skipna:` inside an arm is decided there);
              `return <value>`; `raise <Exc>(<text>)`; `<name> = <expr>`; `<name>[<mask>] = <fill>` (not on the argument
              itself: that would write into the caller's array)
  tests       `== != in` on `array.dtype.kind` / the local `kind` against kind constants, on the function object `ufunc`
              against `np.<f>` / a set of them, `array.ndim == <n>`, `len(<array expr>) == 0`, `<mask>.any()`, `<mask>.all()`,
              Boolean parameters / locals, truthiness of the integer parameter `axis`, `and` / `or` / `not`
  arrays      the argument, `.copy()`, `.astype(object | bool)`, `array[<mask>]`, `array != ''`
  masks       `np.not_equal(array, None)`, `isna_array(array)`, `~m`, `m.any(axis=axis)`
  values      `np.nan`, `True` / `False`, `0.0` / `1.0`, conditional expressions of those, `ufunc == np.<f>`,
              `ufunc(<array>, <exactly the keyword arguments the spec lists, each passed through>)`,
              `np.full(array.shape[<0 | 1 | 0 if axis else 1>], fill_value=<bool>, dtype=bool)`,
              `np.full(<axis mask>.shape, np.nan, dtype=DTYPE_FLOAT_DEFAULT)`, `post.astype(DTYPE_FLOAT_DEFAULT)`
  everything else (loops, try, with, calls of other functions, other attributes, other constants) is rejected.

usage: py2lean_reduce.py [--repo /repo] [--out lean/SFModel/Gen] [--check] [--stdout]
"""
from __future__ import annotations

import argparse
import ast
import os
import sys
import textwrap

UTIL = 'static_frame/core/util.py'
CONTAINER = 'static_frame/core/container.py'
INTERFACE = 'static_frame/core/interface.py'

KINDS = {'b': 'Kind.b', 'i': 'Kind.i', 'u': 'Kind.u', 'f': 'Kind.f', 'c': 'Kind.c', 'U': 'Kind.U', 'S': 'Kind.S',
         'M': 'Kind.M', 'm': 'Kind.m', 'O': 'Kind.O'}
NP_FUNCS = ('all', 'any', 'sum', 'nansum', 'prod', 'nanprod', 'min', 'nanmin', 'max', 'nanmax', 'mean', 'nanmean', 'median',
            'nanmedian', 'std', 'nanstd', 'var', 'nanvar', 'cumsum', 'nancumsum', 'cumprod', 'nancumprod', 'argmin', 'nanargmin',
            'argmax', 'nanargmax')
UTIL_FUNCS = ('ufunc_all', 'ufunc_any', 'ufunc_nanall', 'ufunc_nanany')
EXC = {'TypeError': 'Exc.typeError', 'NotImplementedError': 'Exc.notImplementedError', 'ValueError': 'Exc.valueError',
       'RuntimeError': 'Exc.runtimeError'}
# the methods of ContainerOperand the hand-mirrored table `SF.Reduce.desc` is about (its type `Fn`)
FNS = ('all', 'any', 'sum', 'min', 'max', 'mean', 'median', 'std', 'var', 'prod', 'cumsum', 'cumprod')
DISPATCH = {'_ufunc_axis_skipna': 'false', '_ufunc_shape_skipna': 'true'}
OUT_DTYPES = {(): 'OutDTypes.rowDtype', ('bool',): 'OutDTypes.bool', ('float64', 'complex128'): 'OutDTypes.inexact',
              ('float64',): 'OutDTypes.float'}
RESERVED = {'some', 'none', 'match', 'with', 'if', 'then', 'else', 'let', 'fun', 'def', 'do', 'at', 'have', 'show', 'end', 'open', 'in',
            'from', 'by', 'where', 'Type', 'Int', 'Nat', 'List', 'Option', 'true', 'false', 'min', 'max', 'kind', 'ndim', 'skipna',
            'ufunc', 'axis', 'len0', 'anyM', 'allM', 'anyX', 'allX'}


class TranslationError(Exception):
    pass


def ind(s, n=2):
    return textwrap.indent(s, ' ' * n)


def src_of(node, limit=90):
    return ast.unparse(node).split('\n')[0][:limit]


class Sym:
    """a symbolic value: `sort` and its Lean term (plus sort-specific fields)"""

    def __init__(self, sort, lean=None, **kw):
        self.sort, self.lean = sort, lean
        self.__dict__.update(kw)

    def __repr__(self):
        return f'<{self.sort} {self.lean}>'


# --------------------------------------------------------------------------- module constants
class Consts:
    """module-level constants of util.py, resolved on demand (so that editing one changes the translation)"""

    def __init__(self, tree):
        self.raw = {}
        for n in tree.body:
            if isinstance(n, ast.Assign) and len(n.targets) == 1 and isinstance(n.targets[0], ast.Name):
                if n.targets[0].id in self.raw:
                    self.raw[n.targets[0].id] = None        # assigned twice: not a constant
                else:
                    self.raw[n.targets[0].id] = n.value
            elif isinstance(n, ast.AnnAssign) and isinstance(n.target, ast.Name) and n.value is not None:
                self.raw[n.target.id] = None if n.target.id in self.raw else n.value
            elif isinstance(n, ast.AugAssign) and isinstance(n.target, ast.Name):
                self.raw[n.target.id] = None

    def get(self, name):
        if self.raw.get(name) is None:
            raise TranslationError(f'{name} is not a module constant assigned once')
        return self.raw[name]

    def kinds(self, node, depth=0):
        if depth > 8:
            raise TranslationError('constants nested too deep')
        if isinstance(node, ast.Name):
            return self.kinds(self.get(node.id), depth + 1)
        if isinstance(node, ast.Constant) and isinstance(node.value, str):
            if len(node.value) != 1 or node.value not in KINDS:
                raise TranslationError(f'unknown dtype kind {node.value!r}')
            return [KINDS[node.value]]
        if isinstance(node, (ast.Tuple, ast.List, ast.Set)):
            out = []
            for e in node.elts:
                out += self.kinds(e, depth + 1)
            return out
        if isinstance(node, ast.Call) and isinstance(node.func, ast.Name) and node.func.id == 'frozenset' and len(node.args) == 1 \
                and not node.keywords:
            return self.kinds(node.args[0], depth + 1)
        raise TranslationError(f'kind collection outside subset: {src_of(node)}')

    def kind(self, node):
        ks = self.kinds(node)
        if len(ks) != 1 or isinstance(node, (ast.Tuple, ast.List, ast.Set)):
            raise TranslationError(f'single kind expected: {src_of(node)}')
        if isinstance(node, ast.Name) and isinstance(self.get(node.id), (ast.Tuple, ast.List, ast.Set)):
            raise TranslationError(f'single kind expected, {node.id} is a collection')
        return ks[0]

    def ufs(self, node, depth=0):
        """a collection of function objects -> list of UF terms (source order)"""
        if isinstance(node, ast.Name) and node.id not in UTIL_FUNCS:
            return self.ufs(self.get(node.id), depth + 1)
        if isinstance(node, (ast.Tuple, ast.List, ast.Set)) and depth <= 8:
            return [uf_term(e) for e in node.elts]
        raise TranslationError(f'collection of functions outside subset: {src_of(node)}')

    def dtype_name(self, node, depth=0):
        """`np.dtype(bool)` ... -> 'bool' | 'float64' | 'complex128' | 'object' | 'int64' | 'str'"""
        if depth > 8:
            raise TranslationError('constants nested too deep')
        if isinstance(node, ast.Name):
            if node.id in ('bool', 'object', 'float', 'complex', 'int', 'str'):
                return {'float': 'float64', 'complex': 'complex128', 'int': 'int64'}.get(node.id, node.id)
            return self.dtype_name(self.get(node.id), depth + 1)
        if isinstance(node, ast.Attribute) and isinstance(node.value, ast.Name) and node.value.id == 'np' \
                and node.attr in ('float64', 'complex128', 'int64', 'bool_', 'object_'):
            return node.attr.rstrip('_')
        if isinstance(node, ast.Call) and src_of(node.func) == 'np.dtype' and len(node.args) == 1 and not node.keywords:
            return self.dtype_name(node.args[0], depth + 1)
        raise TranslationError(f'dtype outside subset: {src_of(node)}')

    def dtypes(self, node, depth=0):
        if isinstance(node, ast.Name):
            return self.dtypes(self.get(node.id), depth + 1)
        if isinstance(node, ast.Tuple) and depth <= 8:
            return tuple(self.dtype_name(e) for e in node.elts)
        raise TranslationError(f'tuple of dtypes outside subset: {src_of(node)}')


def uf_term(node, bound=()):
    """`np.sum` / `ufunc_all` / `partial(np.std, ddof=ddof)` -> UF term"""
    if isinstance(node, ast.Attribute) and isinstance(node.value, ast.Name) and node.value.id == 'np' and 'np' not in bound:
        if node.attr in NP_FUNCS:
            return f'UF.np_{node.attr}'
        raise TranslationError(f'np.{node.attr} is not a function the model knows')
    if isinstance(node, ast.Name) and node.id in UTIL_FUNCS and node.id not in bound:
        return f'UF.{node.id}'
    if isinstance(node, ast.Call) and isinstance(node.func, ast.Name) and node.func.id == 'partial' and 'partial' not in bound \
            and len(node.args) == 1 and len(node.keywords) == 1 and node.keywords[0].arg == 'ddof' \
            and isinstance(node.keywords[0].value, ast.Name) and node.keywords[0].value.id == 'ddof':
        return uf_term(node.args[0], bound)
    raise TranslationError(f'function object outside subset: {src_of(node)}')


# --------------------------------------------------------------------------- function bodies
class Env:
    def __init__(self, vars=None, known=None):
        self.vars = dict(vars or {})
        self.known = dict(known or {})     # lean term of a Boolean parameter -> its value on this path

    def copy(self):
        return Env(self.vars, self.known)


class Spec:
    """what is expected of one function and how its values are rendered"""

    def __init__(self, name, args, kwonly, defaults, sig, stub, ns, call_kw, mkparams, ret):
        self.name, self.args, self.kwonly, self.defaults = name, args, kwonly, defaults
        self.sig, self.stub, self.ns, self.call_kw, self.mkparams, self.ret = sig, stub, ns, call_kw, mkparams, ret


class Tr:
    def __init__(self, consts, spec, module_names, params):
        self.c, self.spec = consts, spec
        self.params = set(params)             # names of the parameters (never assigned)
        self.module_names = module_names      # names defined at module level (functions, imports): may be called only when known

    # ------------------------------------------------------------------ expressions
    def lookup(self, name, env):
        if name not in env.vars:
            raise TranslationError(f'{name} is unknown or may be unbound here')
        return env.vars[name]

    def is_param_array(self, s):
        return s.sort == 'arr' and s.lean == f'{self.spec.ns}.array'

    def expr(self, e, env):
        ns = self.spec.ns
        if isinstance(e, ast.Constant):
            v = e.value
            if isinstance(v, bool):
                return Sym('bool', 'true' if v else 'false', const=v)
            if v is None:
                return Sym('none')
            if isinstance(v, int):
                return Sym('intlit', str(v), value=v)
            if isinstance(v, float):
                if v == 0.0 and str(v) == '0.0':
                    return Sym('fill', 'Fill.f0')
                if v == 1.0:
                    return Sym('fill', 'Fill.f1')
                raise TranslationError(f'float constant {v!r} outside subset')
            if isinstance(v, str):
                return Sym('str', None, value=v)
            raise TranslationError(f'constant {v!r} outside subset')
        if isinstance(e, ast.Name):
            if e.id in env.vars:
                return env.vars[e.id]
            if e.id in UTIL_FUNCS:
                return Sym('uf', f'UF.{e.id}')
            raise TranslationError(f'{e.id} is unknown or may be unbound here')
        if isinstance(e, ast.Attribute):
            if isinstance(e.value, ast.Name) and e.value.id == 'np' and 'np' not in env.vars:
                if e.attr == 'nan':
                    return Sym('nanv')
                return Sym('uf', uf_term(e))
            if e.attr == 'kind' and isinstance(e.value, ast.Attribute) and e.value.attr == 'dtype':
                a = self.expr(e.value.value, env)
                if self.is_param_array(a):
                    return Sym('kind', 'kind')
                raise TranslationError(f'dtype kind of something that is not the argument array: {src_of(e)}')
            if e.attr == 'ndim':
                a = self.expr(e.value, env)
                if self.is_param_array(a):
                    return Sym('nat', 'ndim')
                raise TranslationError(f'ndim of something that is not the argument array: {src_of(e)}')
            raise TranslationError(f'attribute outside subset: {src_of(e)}')
        if isinstance(e, ast.UnaryOp):
            if isinstance(e.op, ast.Not):
                return Sym('bool', f'(!{self.truth(e.operand, env)})')
            if isinstance(e.op, ast.Invert):
                m = self.expr(e.operand, env)
                if m.sort != 'mask':
                    raise TranslationError(f'~ of something that is not a mask: {src_of(e)}')
                return Sym('mask', f'MExp.inv ({m.lean})')
            raise TranslationError(f'operator outside subset: {src_of(e)}')
        if isinstance(e, ast.BoolOp):
            sym = ' && ' if isinstance(e.op, ast.And) else ' || '
            return Sym('bool', '(' + sym.join(self.truth(v, env) for v in e.values) + ')')
        if isinstance(e, ast.IfExp):
            t = self.truth(e.test, env)
            a, b = self.expr(e.body, env), self.expr(e.orelse, env)
            if a.sort != b.sort or a.sort not in ('fill', 'bool', 'intlit'):
                raise TranslationError(f'conditional expression outside subset: {src_of(e)}')
            if a.sort == 'intlit':
                if a.value < 0 or b.value < 0:
                    raise TranslationError(f'negative constant: {src_of(e)}')
                return Sym('natexp', f'(if {t} then {a.lean} else {b.lean})')
            return Sym(a.sort, f'(if {t} then {a.lean} else {b.lean})')
        if isinstance(e, ast.Compare):
            return self.compare(e, env)
        if isinstance(e, ast.Subscript):
            a = self.expr(e.value, env)
            m = self.expr(e.slice, env)
            if a.sort == 'arr' and m.sort == 'mask' and ns == 'AExp':
                return Sym('arr', f'AExp.index ({a.lean}) ({m.lean})')
            raise TranslationError(f'subscript outside subset: {src_of(e)}')
        if isinstance(e, ast.Call):
            return self.call(e, env)
        raise TranslationError(f'expression outside subset: {src_of(e)}')

    def truth(self, e, env):
        """Lean Bool term of a test"""
        s = self.expr(e, env)
        if s.sort == 'bool':
            return s.lean
        if s.sort == 'int':
            return f'({s.lean} != 0)'
        raise TranslationError(f'truthiness of {src_of(e)} ({s.sort}) outside subset')

    def compare(self, e, env):
        if len(e.ops) != 1:
            raise TranslationError(f'chained comparison: {src_of(e)}')
        op, right = e.ops[0], e.comparators[0]
        left = self.expr(e.left, env)
        if isinstance(op, (ast.Eq, ast.NotEq)):
            neg = isinstance(op, ast.NotEq)
            rel = '!=' if neg else '=='
            if left.sort == 'kind':
                return Sym('bool', f'({left.lean} {rel} {self.c.kind(right)})')
            if left.sort in ('uf', 'callable'):
                if getattr(left, 'uf', left.lean) is None:
                    raise TranslationError(f'identity of {src_of(e.left)} is not part of the skeleton')
                r = self.expr(right, env)
                if r.sort != 'uf':
                    raise TranslationError(f'comparison outside subset: {src_of(e)}')
                return Sym('bool', f'({getattr(left, "uf", left.lean)} {rel} {r.lean})')
            r = self.expr(right, env)
            if left.sort in ('nat', 'int') and r.sort == 'intlit':
                if left.sort == 'nat' and r.value < 0:
                    raise TranslationError(f'comparison with a negative constant: {src_of(e)}')
                return Sym('bool', f'({left.lean} {rel} {r.lean})')
            if left.sort == 'lenof' and r.sort == 'intlit' and r.value == 0:
                t = f'len0 ({left.arr.lean})'
                return Sym('bool', f'(!{t})' if neg else f'({t})')
            if left.sort == 'arr' and r.sort == 'str' and r.value == '' and neg and self.spec.ns == 'LExp':
                return Sym('arr', f'LExp.neStr ({left.lean})')
            raise TranslationError(f'comparison outside subset: {src_of(e)}')
        if isinstance(op, (ast.In, ast.NotIn)):
            neg = '!' if isinstance(op, ast.NotIn) else ''
            if left.sort == 'kind':
                if not isinstance(right, ast.Name):
                    raise TranslationError(f'`in` against something that is not a named constant: {src_of(e)}')
                return Sym('bool', f'({neg}[{", ".join(self.c.kinds(right))}].contains {left.lean})')
            if left.sort in ('uf', 'callable') and getattr(left, 'uf', left.lean) is not None:
                return Sym('bool', f'({neg}[{", ".join(self.c.ufs(right))}].contains {getattr(left, "uf", left.lean)})')
        raise TranslationError(f'comparison outside subset: {src_of(e)}')

    def passthrough(self, call, names, what):
        """the keyword arguments are exactly `names`, each passed through (`axis=axis`)"""
        got = [kw.arg for kw in call.keywords]
        if got != list(names):
            raise TranslationError(f'{what}: keyword arguments {got}, expected {list(names)}: {src_of(call)}')
        for kw in call.keywords:
            if not (isinstance(kw.value, ast.Name) and kw.value.id == kw.arg and kw.arg in self.params):
                raise TranslationError(f'{what}: {kw.arg} is not passed through: {src_of(call)}')

    def call(self, e, env):
        ns = self.spec.ns
        f = e.func
        if any(isinstance(a, ast.Starred) for a in e.args) or any(kw.arg is None for kw in e.keywords):
            raise TranslationError(f'call outside subset: {src_of(e)}')
        # ---- the kernels
        if isinstance(f, ast.Name) and f.id in env.vars and env.vars[f.id].sort == 'callable':
            w = env.vars[f.id]
            if len(e.args) != 1:
                raise TranslationError(f'kernel call outside subset: {src_of(e)}')
            a = self.expr(e.args[0], env)
            if a.sort != 'arr':
                raise TranslationError(f'kernel applied to something that is not an array: {src_of(e)}')
            self.passthrough(e, self.spec.call_kw, f'call of {f.id}')
            return Sym('post', None, which=w.which, arr=a, plain=True)
        if isinstance(f, ast.Name):
            if f.id in env.vars:
                raise TranslationError(f'call of the local {f.id}: {src_of(e)}')
            if f.id == 'len' and len(e.args) == 1 and not e.keywords:
                a = self.expr(e.args[0], env)
                if a.sort == 'arr':
                    return Sym('lenof', None, arr=a)
                raise TranslationError(f'len of something that is not an array: {src_of(e)}')
            if f.id == 'isna_array' and len(e.args) == 1 and not e.keywords and 'isna_array' in self.module_names:
                if self.is_param_array(self.expr(e.args[0], env)):
                    return Sym('mask', 'MExp.isna')
                raise TranslationError(f'isna_array of something that is not the argument array: {src_of(e)}')
            raise TranslationError(f'call outside subset: {src_of(e)}')
        if isinstance(f, ast.Attribute) and isinstance(f.value, ast.Name) and f.value.id == 'np' and 'np' not in env.vars:
            if f.attr == 'not_equal' and len(e.args) == 2 and not e.keywords:
                a, b = self.expr(e.args[0], env), self.expr(e.args[1], env)
                if self.is_param_array(a) and b.sort == 'none':
                    return Sym('mask', 'MExp.notEqNone')
            if f.attr == 'full':
                return self.np_full(e, env)
            raise TranslationError(f'call outside subset: {src_of(e)}')
        if isinstance(f, ast.Attribute):
            v = self.expr(f.value, env)
            if f.attr == 'copy' and not e.args and not e.keywords and v.sort == 'arr':
                return Sym('arr', f'{ns}.copy ({v.lean})')
            if f.attr == 'astype' and len(e.args) == 1 and not e.keywords:
                dt = self.c.dtype_name(e.args[0])
                if v.sort == 'arr' and dt == 'object' and ns == 'AExp':
                    return Sym('arr', f'AExp.astypeObj ({v.lean})')
                if v.sort == 'arr' and dt == 'bool' and ns == 'LExp':
                    return Sym('arr', f'LExp.astypeBool ({v.lean})')
                if v.sort == 'post' and dt == 'float64':
                    return Sym('post', f'PExp.astypeFloat ({self.post_term(v)})', plain=False)
                raise TranslationError(f'astype outside subset: {src_of(e)}')
            if f.attr in ('any', 'all') and not e.args:
                if v.sort == 'mask' and not e.keywords:
                    return Sym('bool', f'({f.attr}M ({v.lean}))')
                if v.sort == 'xmask' and not e.keywords:
                    return Sym('bool', f'({f.attr}X ({v.lean}))')
                if v.sort == 'mask' and f.attr == 'any' and 'axis' in self.params:
                    self.passthrough(e, ['axis'], 'mask.any')
                    return Sym('xmask', f'XExp.anyAxis ({v.lean})')
            raise TranslationError(f'method call outside subset: {src_of(e)}')
        raise TranslationError(f'call outside subset: {src_of(e)}')

    def np_full(self, e, env):
        kws = {kw.arg: kw.value for kw in e.keywords}
        # np.full(array.shape[<dim>], fill_value=<bool>, dtype=bool)
        if len(e.args) == 1 and set(kws) == {'fill_value', 'dtype'} and isinstance(e.args[0], ast.Subscript):
            sub = e.args[0]
            if isinstance(sub.value, ast.Attribute) and sub.value.attr == 'shape' and self.is_param_array(self.expr(sub.value.value, env)):
                d = self.expr(sub.slice, env)
                if d.sort == 'intlit' and d.value >= 0:
                    dim = d.lean
                elif d.sort == 'natexp':
                    dim = d.lean
                else:
                    raise TranslationError(f'np.full: dimension outside subset: {src_of(e)}')
                b = self.expr(kws['fill_value'], env)
                if b.sort == 'bool' and self.c.dtype_name(kws['dtype']) == 'bool':
                    return Sym('full', None, dim=dim, b=b.lean)
        # np.full(<axis mask>.shape, np.nan, dtype=DTYPE_FLOAT_DEFAULT)
        if len(e.args) == 2 and set(kws) == {'dtype'} and isinstance(e.args[0], ast.Attribute) and e.args[0].attr == 'shape':
            x = self.expr(e.args[0].value, env)
            v = self.expr(e.args[1], env)
            if x.sort == 'xmask' and v.sort == 'nanv' and self.c.dtype_name(kws['dtype']) == 'float64':
                return Sym('fullnan', None, x=x.lean)
        raise TranslationError(f'np.full outside subset: {src_of(e)}')

    @staticmethod
    def post_term(p):
        return f'PExp.call {p.which} ({p.arr.lean})' if p.plain else p.lean

    # ------------------------------------------------------------------ statements
    def block(self, stmts, env):
        if not stmts:
            raise TranslationError('the function may fall off its end (returns None): outside subset')
        s, rest = stmts[0], stmts[1:]
        if isinstance(s, ast.Expr) and isinstance(s.value, ast.Constant) and isinstance(s.value.value, str):
            return self.block(rest, env)
        if isinstance(s, ast.Return):
            if s.value is None:
                raise TranslationError('bare return')
            return self.spec.ret(self, self.expr(s.value, env), s)
        if isinstance(s, ast.Raise):
            exc = s.exc
            if s.cause is not None or exc is None:
                raise TranslationError(f'raise outside subset: {src_of(s)}')
            if isinstance(exc, ast.Call) and not exc.keywords and len(exc.args) <= 1 \
                    and all(isinstance(a, (ast.Constant, ast.JoinedStr)) for a in exc.args):
                exc = exc.func
            if not isinstance(exc, ast.Name) or exc.id not in EXC or exc.id in env.vars:
                raise TranslationError(f'raise outside subset: {src_of(s)}')
            return self.spec.ret(self, Sym('raise', EXC[exc.id]), s)
        if isinstance(s, ast.If):
            t = self.truth(s.test, env)
            # a test that is a Boolean parameter (possibly negated) is decided once per path
            core, neg = s.test, False
            while isinstance(core, ast.UnaryOp) and isinstance(core.op, ast.Not):
                core, neg = core.operand, not neg
            key = None
            if isinstance(core, ast.Name) and core.id in env.vars and env.vars[core.id].sort == 'bool' and getattr(env.vars[core.id], 'param', False):
                key = env.vars[core.id].lean
            if key is not None and key in env.known:
                return self.block(list(s.body if env.known[key] != neg else s.orelse) + rest, env)
            et, ef = env.copy(), env.copy()
            if key is not None:
                et.known[key], ef.known[key] = not neg, neg
            a = self.block(list(s.body) + rest, et)
            b = self.block(list(s.orelse) + rest, ef)
            return f'if {t} then\n{ind(a)}\nelse\n{ind(b)}'
        if isinstance(s, ast.Assign) and len(s.targets) == 1:
            t = s.targets[0]
            if isinstance(t, ast.Name):
                return self.assign(t.id, s, env, rest)
            if isinstance(t, ast.Subscript) and isinstance(t.value, ast.Name):
                return self.assign_where(t, s, env, rest)
        raise TranslationError(f'statement outside subset: {src_of(s)}')

    def check_target(self, name, s):
        if name in self.params:
            raise TranslationError(f'assignment to the parameter {name}: {src_of(s)}')
        if name in RESERVED or name in self.module_names and name not in ('kind',):
            raise TranslationError(f'local named {name}: {src_of(s)}')

    def assign(self, name, s, env, rest):
        v = self.expr(s.value, env)
        if name == 'kind' and v.sort == 'kind':       # `kind = array.dtype.kind`: the same Lean variable
            e2 = env.copy()
            e2.vars[name] = v
            return self.block(rest, e2)
        self.check_target(name, s)
        e2 = env.copy()
        if v.sort in ('bool', 'fill'):
            e2.vars[name] = Sym(v.sort, name)
            return f'let {name} := {v.lean}\n' + self.block(rest, e2)
        if v.sort in ('arr', 'mask', 'xmask', 'post'):
            e2.vars[name] = v
            return self.block(rest, e2)
        raise TranslationError(f'assignment outside subset: {src_of(s)}')

    def assign_where(self, t, s, env, rest):
        name = t.value.id
        self.check_target(name, s)
        cur = self.lookup(name, env)
        m = self.expr(t.slice, env)
        val = self.expr(s.value, env)
        e2 = env.copy()
        if cur.sort == 'arr' and m.sort == 'mask':
            if self.is_param_array(cur):
                raise TranslationError(f'{src_of(s)}: writes into the argument array')
            if self.spec.ns == 'AExp' and val.sort == 'nanv':
                e2.vars[name] = Sym('arr', f'AExp.setNan ({cur.lean}) ({m.lean})')
                return self.block(rest, e2)
            if self.spec.ns == 'LExp' and val.sort in ('fill', 'bool'):
                fill = val.lean if val.sort == 'fill' else f'Fill.ofBool {val.lean}'
                e2.vars[name] = Sym('arr', f'LExp.setWhere ({cur.lean}) ({m.lean}) ({fill})')
                return self.block(rest, e2)
        if cur.sort == 'post' and m.sort == 'xmask' and val.sort == 'nanv':
            e2.vars[name] = Sym('post', f'PExp.setNan ({self.post_term(cur)}) ({m.lean})', plain=False)
            return self.block(rest, e2)
        raise TranslationError(f'item assignment outside subset: {src_of(s)}')


# ---- how each function renders what it returns
def ret_axis(tr, v, s):
    if v.sort == 'nanv':
        return '.retNan'
    if v.sort == 'post' and v.plain:
        return f'.call {v.which} ({v.arr.lean})'
    raise TranslationError(f'return value outside subset: {src_of(s)}')


def ret_logical(tr, v, s):
    if v.sort == 'raise':
        return f'.raise {v.lean}'
    if v.sort == 'bool':
        return f'.retBool {v.lean}'
    if v.sort == 'post' and v.plain:
        if v.which != 'Which.ufunc':
            raise TranslationError(f'return value outside subset: {src_of(s)}')
        return f'.call ({v.arr.lean})'
    if v.sort == 'full':
        return f'.retFull {v.dim} {v.b}'
    raise TranslationError(f'return value outside subset: {src_of(s)}')


def ret_arg2d(tr, v, s):
    if v.sort == 'fullnan':
        return f'.retFullNan ({v.x})'
    if v.sort == 'post':
        return f'.ret ({tr.post_term(v)})'
    raise TranslationError(f'return value outside subset: {src_of(s)}')


def p_array(ns):
    return Sym('arr', f'{ns}.array')


def p_bool(name):
    return Sym('bool', name, param=True)


P_DATA = Sym('data')

SPECS = [
    Spec('ufunc_axis_skipna', ['array'], ['skipna', 'axis', 'ufunc', 'ufunc_skipna', 'out'], {'out': 'None'},
         '(kind : Kind) (ndim : Nat) (skipna : Bool) (ufunc : UF) (len0 : AExp → Bool) : ARoute', '.retNan', 'AExp', ['axis', 'out'],
         lambda: {'array': p_array('AExp'), 'skipna': p_bool('skipna'), 'axis': P_DATA, 'out': P_DATA,
                  'ufunc': Sym('callable', None, which='Which.ufunc', uf='ufunc'),
                  'ufunc_skipna': Sym('callable', None, which='Which.ufuncSkipna', uf=None)}, ret_axis),
    Spec('_ufunc_logical_skipna', ['array', 'ufunc', 'skipna', 'axis', 'out'], [], {'axis': '0', 'out': 'None'},
         '(ufunc : UF) (kind : Kind) (skipna : Bool) (ndim : Nat) (axis : Int) (len0 : LExp → Bool) (anyM allM : MExp → Bool) : LRoute',
         '.retBool false', 'LExp', ['axis', 'out'],
         lambda: {'array': p_array('LExp'), 'skipna': p_bool('skipna'), 'axis': Sym('int', 'axis'), 'out': P_DATA,
                  'ufunc': Sym('callable', None, which='Which.ufunc', uf='ufunc')}, ret_logical),
    Spec('_argminmax_1d', ['array', 'ufunc', 'ufunc_skipna', 'skipna'], [], {'skipna': 'True'},
         '(skipna : Bool) (anyM allM : MExp → Bool) : ARoute', '.call Which.ufunc AExp.array', 'AExp', [],
         lambda: {'array': p_array('AExp'), 'skipna': p_bool('skipna'),
                  'ufunc': Sym('callable', None, which='Which.ufunc', uf=None),
                  'ufunc_skipna': Sym('callable', None, which='Which.ufuncSkipna', uf=None)}, ret_axis),
    Spec('_argminmax_2d', ['array', 'ufunc', 'ufunc_skipna', 'skipna', 'axis'], [], {'skipna': 'True', 'axis': '0'},
         '(skipna : Bool) (anyX allX : XExp → Bool) : G2Route', '.ret (PExp.call Which.ufunc AExp.array)', 'AExp', ['axis'],
         lambda: {'array': p_array('AExp'), 'skipna': p_bool('skipna'), 'axis': P_DATA,
                  'ufunc': Sym('callable', None, which='Which.ufunc', uf=None),
                  'ufunc_skipna': Sym('callable', None, which='Which.ufuncSkipna', uf=None)}, ret_arg2d),
]
WRAPPERS = ('ufunc_all', 'ufunc_any', 'ufunc_nanall', 'ufunc_nanany')
PARTIALS = (('argmin_1d', '_argminmax_1d'), ('argmax_1d', '_argminmax_1d'), ('argmin_2d', '_argminmax_2d'), ('argmax_2d', '_argminmax_2d'))


def find_func(tree, name):
    found = [n for n in tree.body if isinstance(n, (ast.FunctionDef, ast.AsyncFunctionDef, ast.ClassDef)) and n.name == name]
    if len(found) != 1 or not isinstance(found[0], ast.FunctionDef):
        raise TranslationError(f'function {name}: {len(found)} definitions')
    assigned = [n for n in tree.body if isinstance(n, (ast.Assign, ast.AnnAssign, ast.AugAssign))
                and any(isinstance(t, ast.Name) and t.id == name for t in (n.targets if isinstance(n, ast.Assign) else [n.target]))]
    if assigned:
        raise TranslationError(f'{name} is re-bound at module level')
    if found[0].decorator_list:
        raise TranslationError(f'{name} is decorated')
    return found[0]


def check_signature(fn, spec):
    a = fn.args
    if a.posonlyargs or a.vararg or a.kwarg:
        raise TranslationError('parameter list outside subset')
    got_args, got_kw = [x.arg for x in a.args], [x.arg for x in a.kwonlyargs]
    if got_args != spec.args or got_kw != spec.kwonly:
        raise TranslationError(f'parameters {got_args} / keyword-only {got_kw} differ from expected {spec.args} / {spec.kwonly}')
    defaults = {}
    for x, d in zip(a.args[len(a.args) - len(a.defaults):], a.defaults):
        defaults[x.arg] = ast.unparse(d)
    for x, d in zip(a.kwonlyargs, a.kw_defaults):
        if d is not None:
            defaults[x.arg] = ast.unparse(d)
    if defaults != spec.defaults:
        raise TranslationError(f'defaults {defaults} differ from expected {spec.defaults}')


def module_names(tree):
    out = set()
    for n in tree.body:
        if isinstance(n, (ast.FunctionDef, ast.ClassDef)):
            out.add(n.name)
        elif isinstance(n, (ast.Import, ast.ImportFrom)):
            out |= {(a.asname or a.name).split('.')[0] for a in n.names}
        elif isinstance(n, ast.Assign):
            out |= {t.id for t in n.targets if isinstance(t, ast.Name)}
    return out


def translate_function(tree, consts, spec):
    fn = find_func(tree, spec.name)
    check_signature(fn, spec)
    for node in ast.walk(fn):
        if isinstance(node, (ast.FunctionDef, ast.AsyncFunctionDef, ast.ClassDef, ast.Lambda)) and node is not fn:
            raise TranslationError(f'nested definition: {src_of(node)}')
    params = spec.mkparams()
    tr = Tr(consts, spec, module_names(tree), params)
    env = Env(params)
    body = tr.block(list(fn.body), env)
    return f'def {spec.name} {spec.sig} :=\n{ind(body)}\n'


def translate_wrapper(tree, name):
    """`def ufunc_all(array, axis=0, out=None): return _ufunc_logical_skipna(array, ufunc=np.all, skipna=False, axis=axis, out=out)`"""
    fn = find_func(tree, name)
    a = fn.args
    if [x.arg for x in a.args] != ['array', 'axis', 'out'] or a.kwonlyargs or a.vararg or a.kwarg or a.posonlyargs \
            or [ast.unparse(d) for d in a.defaults] != ['0', 'None']:
        raise TranslationError(f'{name}: parameters outside subset')
    body = [s for s in fn.body if not (isinstance(s, ast.Expr) and isinstance(s.value, ast.Constant) and isinstance(s.value.value, str))]
    if len(body) != 1 or not isinstance(body[0], ast.Return) or not isinstance(body[0].value, ast.Call):
        raise TranslationError(f'{name}: body outside subset')
    c = body[0].value
    if not (isinstance(c.func, ast.Name) and c.func.id == '_ufunc_logical_skipna' and len(c.args) == 1
            and isinstance(c.args[0], ast.Name) and c.args[0].id == 'array'):
        raise TranslationError(f'{name}: {src_of(c)} outside subset')
    kws = {kw.arg: kw.value for kw in c.keywords}
    if [kw.arg for kw in c.keywords] != ['ufunc', 'skipna', 'axis', 'out'] or src_of(kws['axis']) != 'axis' or src_of(kws['out']) != 'out':
        raise TranslationError(f'{name}: keyword arguments outside subset: {src_of(c)}')
    sk = kws['skipna']
    if not (isinstance(sk, ast.Constant) and isinstance(sk.value, bool)):
        raise TranslationError(f'{name}: skipna is not a Boolean constant')
    return f'def {name} : UF × Bool := ({uf_term(kws["ufunc"])}, {"true" if sk.value else "false"})\n'


def translate_partial(tree, name, target):
    """`argmin_1d = partial(_argminmax_1d, ufunc=np.argmin, ufunc_skipna=np.nanargmin)`"""
    found = [n for n in tree.body if isinstance(n, ast.Assign) and any(isinstance(t, ast.Name) and t.id == name for t in n.targets)]
    if len(found) != 1 or len(found[0].targets) != 1 or any(isinstance(n, (ast.FunctionDef, ast.ClassDef)) and n.name == name for n in tree.body):
        raise TranslationError(f'{name}: not assigned exactly once')
    c = found[0].value
    if not (isinstance(c, ast.Call) and isinstance(c.func, ast.Name) and c.func.id == 'partial' and len(c.args) == 1
            and isinstance(c.args[0], ast.Name) and c.args[0].id == target and [kw.arg for kw in c.keywords] == ['ufunc', 'ufunc_skipna']):
        raise TranslationError(f'{name}: {src_of(c)} outside subset')
    return f'def {name} : UF × UF := ({uf_term(c.keywords[0].value)}, {uf_term(c.keywords[1].value)})\n'


# --------------------------------------------------------------------------- the descriptor table of container.py
def translate_table(ctree, consts):
    cls = [n for n in ctree.body if isinstance(n, ast.ClassDef) and n.name == 'ContainerOperand']
    if len(cls) != 1:
        raise TranslationError('class ContainerOperand not found exactly once')
    imported = set()
    for n in ctree.body:
        if isinstance(n, ast.ImportFrom) and n.module == 'static_frame.core.util' and n.level == 0:
            imported |= {a.name for a in n.names if a.asname is None}
    rebound = {t.id for n in ctree.body if isinstance(n, ast.Assign) for t in n.targets if isinstance(t, ast.Name)} \
        | {n.name for n in ctree.body if isinstance(n, (ast.FunctionDef, ast.ClassDef))}
    rows = {}
    for m in cls[0].body:
        if not isinstance(m, ast.FunctionDef):
            continue
        calls = [c for c in ast.walk(m) if isinstance(c, ast.Call) and isinstance(c.func, ast.Attribute) and c.func.attr in DISPATCH]
        if m.name in DISPATCH:
            if calls:
                raise TranslationError(f'{m.name} calls a dispatcher')
            continue
        if not calls:
            if m.name in FNS:
                raise TranslationError(f'ContainerOperand.{m.name} does not call a dispatcher')
            continue
        if m.name not in FNS:
            raise TranslationError(f'ContainerOperand.{m.name} calls {calls[0].func.attr}: not a function of the hand-mirrored table (Fn)')
        if m.name in rows:
            raise TranslationError(f'ContainerOperand.{m.name} defined twice')
        rows[m.name] = table_row(m, consts, imported, rebound)
    missing = [f for f in FNS if f not in rows]
    if missing:
        raise TranslationError(f'ContainerOperand methods not found: {missing}')
    out = []
    out.append('/-- what each method passes as (composable, size_one_unity, dtypes) -/')
    out.append('def desc : Fn → Desc\n' + '\n'.join(f'  | .{f} => ⟨{rows[f]["composable"]}, {rows[f]["size_one_unity"]}, {rows[f]["dtypes"]}⟩' for f in FNS) + '\n')
    out.append('/-- … as (ufunc, ufunc_skipna) -/')
    out.append('def ufuncPair : Fn → UF × UF\n' + '\n'.join(f'  | .{f} => ({rows[f]["ufunc"]}, {rows[f]["ufunc_skipna"]})' for f in FNS) + '\n')
    out.append('/-- the dispatcher: `_ufunc_shape_skipna` (true) or `_ufunc_axis_skipna` (false) -/')
    out.append('def viaShape : Fn → Bool\n' + '\n'.join(f'  | .{f} => {rows[f]["shape"]}' for f in FNS) + '\n')
    out.append('/-- the defaults of (axis, skipna) -/')
    out.append('def defaults : Fn → Int × Bool\n' + '\n'.join(f'  | .{f} => ({rows[f]["axis"]}, {rows[f]["skipna"]})' for f in FNS) + '\n')
    return '\n'.join(out)


def table_row(m, consts, imported, rebound):
    where = f'ContainerOperand.{m.name}'
    a = m.args
    names = [x.arg for x in a.args]
    if a.kwonlyargs or a.vararg or a.kwarg or a.posonlyargs or names[:3] != ['self', 'axis', 'skipna'] \
            or any(n not in ('ddof', 'out') for n in names[3:]) or len(a.defaults) != len(names) - 1:
        raise TranslationError(f'{where}: parameters {names} outside subset')
    dflt = {x.arg: d for x, d in zip(a.args[1:], a.defaults)}
    ax, sk = dflt['axis'], dflt['skipna']
    if not (isinstance(ax, ast.Constant) and isinstance(ax.value, int) and not isinstance(ax.value, bool)) \
            or not (isinstance(sk, ast.Constant) and isinstance(sk.value, bool)):
        raise TranslationError(f'{where}: defaults of axis / skipna outside subset')
    body = [s for s in m.body if not (isinstance(s, ast.Expr) and isinstance(s.value, ast.Constant) and isinstance(s.value.value, str))]
    if len(body) != 1 or not isinstance(body[0], ast.Return) or not isinstance(body[0].value, ast.Call):
        raise TranslationError(f'{where}: body is not a single `return self.<dispatcher>(...)`')
    c = body[0].value
    if not (isinstance(c.func, ast.Attribute) and isinstance(c.func.value, ast.Name) and c.func.value.id == 'self'
            and c.func.attr in DISPATCH and not c.args):
        raise TranslationError(f'{where}: {src_of(c)} outside subset')
    kws = {kw.arg: kw.value for kw in c.keywords}
    want = ['axis', 'skipna', 'ufunc', 'ufunc_skipna', 'composable', 'dtypes', 'size_one_unity']
    if sorted(kw.arg or '' for kw in c.keywords) != sorted(want):
        raise TranslationError(f'{where}: keyword arguments {[kw.arg for kw in c.keywords]}, expected {want}')
    for p in ('axis', 'skipna'):
        if not (isinstance(kws[p], ast.Name) and kws[p].id == p):
            raise TranslationError(f'{where}: {p} is not passed through')
    row = {'shape': DISPATCH[c.func.attr], 'axis': f'({ax.value} : Int)', 'skipna': 'true' if sk.value else 'false'}
    for p in ('composable', 'size_one_unity'):
        v = kws[p]
        if not (isinstance(v, ast.Constant) and isinstance(v.value, bool)):
            raise TranslationError(f'{where}: {p} is not a Boolean constant: {src_of(v)}')
        row[p] = 'true' if v.value else 'false'
    for p in ('ufunc', 'ufunc_skipna'):
        v = kws[p]
        for n in ast.walk(v):
            if isinstance(n, ast.Name) and n.id in UTIL_FUNCS and (n.id not in imported or n.id in rebound):
                raise TranslationError(f'{where}: {n.id} is not the function imported from util')
            if isinstance(n, ast.Name) and n.id == 'ddof' and 'ddof' not in names:
                raise TranslationError(f'{where}: ddof is not a parameter')
        row[p] = uf_term(v, bound=rebound & {'np', 'partial'})
    dn = kws['dtypes']
    for n in ast.walk(dn):
        if isinstance(n, ast.Name) and (n.id not in imported or n.id in rebound):
            raise TranslationError(f'{where}: {n.id} is not a constant imported from util')
    dts = consts.dtypes(dn)
    if dts not in OUT_DTYPES:
        raise TranslationError(f'{where}: dtypes {dts} is not one of the tuples the model knows')
    row['dtypes'] = OUT_DTYPES[dts]
    return row


def translate_interface(itree):
    """UFUNC_AXIS_SKIPNA / UFUNC_SHAPE_SKIPNA: {'sum': UfuncSkipnaAttrs(np.sum, np.nansum), ...}"""
    rows = []
    for table in ('UFUNC_AXIS_SKIPNA', 'UFUNC_SHAPE_SKIPNA'):
        found = [n for n in itree.body if isinstance(n, (ast.Assign, ast.AnnAssign))
                 and any(isinstance(t, ast.Name) and t.id == table for t in (n.targets if isinstance(n, ast.Assign) else [n.target]))]
        if len(found) != 1 or not isinstance(found[0].value, ast.Dict):
            raise TranslationError(f'interface.{table}: not a dict literal assigned once')
        for k, v in zip(found[0].value.keys, found[0].value.values):
            if not (isinstance(k, ast.Constant) and isinstance(k.value, str) and k.value in FNS):
                raise TranslationError(f'interface.{table}: key {src_of(k) if k else "**"} is not a function of the table')
            if not (isinstance(v, ast.Call) and isinstance(v.func, ast.Name) and v.func.id == 'UfuncSkipnaAttrs' and len(v.args) == 2 and not v.keywords):
                raise TranslationError(f'interface.{table}[{k.value!r}]: {src_of(v)} outside subset')
            rows.append(f'(Fn.{k.value}, {uf_term(v.args[0])}, {uf_term(v.args[1])})')
    return ('/-- interface.UFUNC_AXIS_SKIPNA ++ interface.UFUNC_SHAPE_SKIPNA: the reference pairs -/\n'
            'def interface_pairs : List (Fn × UF × UF) :=\n  [' + ',\n   '.join(rows) + ']\n')


TABLE_STUB = ('def desc : Fn → Desc := fun _ => ⟨false, false, OutDTypes.rowDtype⟩\n'
              'def ufuncPair : Fn → UF × UF := fun _ => (UF.other, UF.other)\n'
              'def viaShape : Fn → Bool := fun _ => false\n'
              'def defaults : Fn → Int × Bool := fun _ => (0, false)\n')


def generate(repo):
    """Returns (text, list of error strings)."""
    out = ['-- GENERATED by tools/py2lean_reduce.py from the current static_frame/core/{util,container,interface}.py; do not edit.',
           'import SFModel.ReduceSem', '', 'set_option linter.unusedVariables false', '', 'namespace SF.Gen.Reduce',
           'open SF SF.Reduce SF.ReduceSem', '']
    errors = []

    def parse(rel):
        return ast.parse(open(os.path.join(repo, rel)).read())

    def attempt(label, path, fn, stub):
        out.append(f'-- {path} :: {label}')
        try:
            out.append(fn())
        except (TranslationError, SyntaxError, OSError, RecursionError, KeyError, AttributeError, IndexError) as ex:
            msg = f'{type(ex).__name__}: {ex}' if not isinstance(ex, TranslationError) else str(ex)
            errors.append(f'{label}: {msg}')
            out.append('-- TRANSLATION FAILED: ' + msg.replace('\n', ' ').replace('-/', '- /'))
            out.append(stub)

    try:
        utree = parse(UTIL)
        consts = Consts(utree)
    except (SyntaxError, OSError) as ex:
        utree, consts = ast.parse(''), Consts(ast.parse(''))
        errors.append(f'{UTIL}: {type(ex).__name__}: {ex}')
    for spec in SPECS:
        attempt(spec.name, UTIL, lambda spec=spec: translate_function(utree, consts, spec), f'def {spec.name} {spec.sig} := {spec.stub}\n')
    for name in WRAPPERS:
        attempt(name, UTIL, lambda name=name: translate_wrapper(utree, name), f'def {name} : UF × Bool := (UF.other, false)\n')
    for name, target in PARTIALS:
        attempt(name, UTIL, lambda name=name, target=target: translate_partial(utree, name, target), f'def {name} : UF × UF := (UF.other, UF.other)\n')
    attempt('ContainerOperand (descriptor table)', CONTAINER, lambda: translate_table(parse(CONTAINER), consts), TABLE_STUB)
    attempt('UFUNC_AXIS_SKIPNA / UFUNC_SHAPE_SKIPNA', INTERFACE, lambda: translate_interface(parse(INTERFACE)),
            'def interface_pairs : List (Fn × UF × UF) := [(Fn.sum, UF.other, UF.other)]\n')
    out.append('end SF.Gen.Reduce')
    return '\n'.join(out) + '\n', errors


def main():
    ap = argparse.ArgumentParser()
    ap.add_argument('--repo', default='/repo')
    ap.add_argument('--out', default=os.path.join(os.path.dirname(os.path.dirname(os.path.abspath(__file__))), 'lean', 'SFModel', 'Gen'))
    ap.add_argument('--check', action='store_true', help='do not write: rc 1 on a translation error or if the file on disk differs')
    ap.add_argument('--stdout', action='store_true', help='print the translation instead of writing it')
    a = ap.parse_args()
    text, errors = generate(a.repo)
    if a.stdout:
        sys.stdout.write(text)
        for e in errors:
            print('py2lean_reduce: TRANSLATION-ERROR', e, file=sys.stderr)
        return 1 if errors else 0
    os.makedirs(a.out, exist_ok=True)
    target = os.path.join(a.out, 'Reduce.lean')
    old = open(target).read() if os.path.exists(target) else None
    if a.check:
        for e in errors:
            print('py2lean_reduce: TRANSLATION-ERROR', e)
        print('py2lean_reduce: up to date' if old == text else f'py2lean_reduce: {target} differs from the translation of the current source')
        return 1 if errors or old != text else 0
    if old != text:
        with open(target, 'w') as f:
            f.write(text)
        print(f'py2lean_reduce: wrote {target}')
    else:
        print('py2lean_reduce: unchanged')
    for e in errors:
        print('py2lean_reduce: TRANSLATION-ERROR', e)
    return 1 if errors else 0


if __name__ == '__main__':
    sys.exit(main())
