#!/bin/bash
# clean-tree sweep: every property's quick check under many seeds; prints only runs that raise an alarm
# usage: tools/seed_sweep.sh "<seeds>" [props...]   (run from the root of a /verif checkout; builds first)
seeds=${1:-"101 202 303 404 505 606"}; shift
props=${@:-"C01 C02 C03 C04 C05 C06 C07 C08 C09 C10 C11 C12 C13 C14 C15 C16 C17 C18 C19 C20"}
python3 tools/gen_drv_all.py && /venv/bin/python tools/py2lean.py; (cd lean && lake build SFModel 2>&1 | tail -1)
for s in $seeds; do for p in $props; do
  out=$(VERIF_SEED=$s timeout 3000 /venv/bin/python harness/check.py $p --tier quick 2>&1); rc=$?
  if [ $rc -ne 0 ]; then echo "=== ALARM $p seed=$s rc=$rc"; echo "$out" | grep -v "conda\|KNOWN-FINDING" | tail -8 | cut -c1-600; else echo "ok $p seed=$s"; fi
done; done
