#!/usr/bin/env python3
"""Makes known_findings.json list every `fix:` commit of /repo as 'fixed: property=<id> <commit> <what failed>'.
The property of a commit is taken from the findings/Cxx.json file whose `fixed` notes name the commit, or from EXTRA.
Run by hand after a repair (never by a check)."""
import json
import os
import subprocess
import sys

VERIF = os.path.dirname(os.path.dirname(os.path.abspath(__file__)))
REPO = os.environ.get('SFV_REPO', '/repo')
EXTRA = {'831d509': 'C14', '0701f80': 'C14', '58f3297': 'C17', 'ad4f5b0': 'C03', 'caf415b': 'C05', '1a52c9e': 'C08', '00cd6df': 'C08', '8e293f6': 'C01', '335e610': 'C01', 'db5a333': 'C01', '083a64e': 'C04', '0335ff8': 'C02', '8dba1fb': 'C02', '9eb4b8c': 'C04', '4a7f60b': 'C02', '51a0a39': 'C02'}


def main():
    kp = os.path.join(VERIF, 'known_findings.json')
    kf = json.load(open(kp))
    log = subprocess.run(['git', '-C', REPO, 'log', '--format=%h %s', '--grep=^fix:'], capture_output=True, text=True).stdout.splitlines()
    texts = {}
    for fn in sorted(os.listdir(os.path.join(VERIF, 'findings'))):
        texts[fn[:-5]] = json.dumps(json.load(open(os.path.join(VERIF, 'findings', fn))).get('fixed', []))
    added = 0
    for line in reversed(log):
        h, subject = line.split(' ', 1)
        if any(isinstance(x, str) and h in x for x in kf['fixed']):
            continue
        prop = EXTRA.get(h) or next((p for p, t in texts.items() if h in t), None)
        if prop is None:
            print('no property known for', line, file=sys.stderr)
            continue
        what = subject[len('fix:'):].strip()
        kf['fixed'].append(f'fixed: property={prop} {h} {what}')
        added += 1
    json.dump(kf, open(kp, 'w'), indent=1)
    print('added', added, 'total', len(kf['fixed']))


if __name__ == '__main__':
    main()
