#!/venv/bin/python
"""Run a property's check against a seeded change.

  run_seeded.py <seeded-id> [--tier quick|thorough] [--in-place]

Default: the patch /verif/seeded/<id>/patch.diff is applied to a scratch copy of /repo under /var/tmp
(removed afterwards) and the check runs with SFV_REPO pointing at it, so that /repo itself - which other
work may be importing - is never disturbed.  --in-place applies it to /repo with `git apply` and undoes it
with `git checkout -- .` straight afterwards (the procedure of the brief).
Prints CAUGHT / MISSED and the VIOLATION line; exit 0 iff the check caught the change.
"""
import argparse, json, os, shutil, subprocess, sys, tempfile
VERIF = os.path.dirname(os.path.dirname(os.path.abspath(__file__)))
ap = argparse.ArgumentParser()
ap.add_argument('sid'); ap.add_argument('--tier', default='quick'); ap.add_argument('--in-place', action='store_true')
ap.add_argument('--seed', default='0')
ap.add_argument('--prop', default=None, help='run the check of another property against this change')
ap.add_argument('--record', action='store_true', help='store the outcome in meta.json')
ap.add_argument('--note', default='')
a = ap.parse_args()
d = os.path.join(VERIF, 'seeded', a.sid)
meta = json.load(open(os.path.join(d, 'meta.json')))
prop = a.prop or meta['property']
patch = os.path.join(d, 'patch.diff')
env = dict(os.environ, VERIF_SEED=a.seed)
if a.in_place:
    subprocess.run(['git', '-C', '/repo', 'apply', patch], check=True)
    try:
        p = subprocess.run(['/venv/bin/python', os.path.join(VERIF, 'harness', 'check.py'), prop, '--tier', a.tier], cwd=VERIF, env=env, capture_output=True, text=True)
    finally:
        subprocess.run(['git', '-C', '/repo', 'checkout', '--', '.'], check=True)
else:
    td = tempfile.mkdtemp(prefix='sfmut_', dir='/var/tmp')
    try:
        repo = os.path.join(td, 'repo')
        subprocess.run(['rsync', '-a', '--exclude', '.git', '--exclude', '.hypothesis', '/repo/', repo + '/'], check=True)
        subprocess.run(['patch', '-p1', '-s', '-d', repo, '-i', patch], check=True)
        env['SFV_REPO'] = repo
        p = subprocess.run(['/venv/bin/python', os.path.join(VERIF, 'harness', 'check.py'), prop, '--tier', a.tier], cwd=VERIF, env=env, capture_output=True, text=True)
    finally:
        shutil.rmtree(td, ignore_errors=True)
lines = [l for l in p.stdout.splitlines() if l.startswith(('VIOLATION', 'FAILING-INPUT', 'BROKEN'))]
caught = p.returncode == 1 and any(l.startswith('VIOLATION') for l in lines)
print(('CAUGHT' if caught else 'MISSED'), a.sid, prop, a.tier, f'rc={p.returncode}')
for l in lines[:4]:
    print('   ', l[:260])
if a.record:
    meta.setdefault('caught', {})[f'{prop} {a.tier}'] = ('CAUGHT' if caught else 'MISSED') + (': ' + lines[0][:160] if lines else '') + ((' [' + a.note + ']') if a.note else '')
    json.dump(meta, open(os.path.join(d, 'meta.json'), 'w'), indent=1)
if not caught:
    print(p.stdout[-600:]); print(p.stderr[-400:])
sys.exit(0 if caught else 1)
