#!/venv/bin/python
"""Mutation self-test of tools/py2lean_bus.py + lean/SFModel/BridgeBus.lean (+ Props/C17Gen.lean) (NOT part of the check):
small source mutations of `Bus._update_series_cache_iloc` in a scratch copy of the package (/repo is never touched); for
each: does the REAL Bus behave differently somewhere on a grid of access histories (ground truth, independent of Lean), is
the translation rejected / changed, do the bridge lemmas still hold.  Same driver and columns as
tools/selftest_py2lean_window.py.

Exit 0 iff every semantic mutation is noticed (TRANSLATION-ERROR or a bridge lemma fails) and no mutation that keeps the
meaning is rejected by the bridge.

usage: selftest_py2lean_bus.py [--only id,...] [--check-missed] [--markdown]
"""
import os
import sys

sys.path.insert(0, os.path.dirname(os.path.abspath(__file__)))
import selftest_py2lean_window as st  # noqa: E402

TOUCH = 'self._last_accessed[label] = self._last_accessed.pop(label, None)'
HIT = f'            for label in labels: # update LRU position\n                {TOUCH}\n            return\n'
READ = '                if frame is FrameDeferred:\n                    frame = next(store_reader)\n'
TOUCH2 = ('                if max_persist_active: # update LRU position, after the read: a failed read must not leave an unloaded label in the LRU\n'
          f'                    {TOUCH}\n')
EVICT = ('                    label_remove = next(iter(self._last_accessed))\n'
         '                    del self._last_accessed[label_remove]\n')
TAIL = '                    own_index=True,\n                    )\n            self._loaded_all = self._loaded.all()\n'

# (id, what, old text, new text, expectation)  - see selftest_py2lean_window.py for the expectations
MUTATIONS = [
    ('b01', 'eviction test: loaded_count > max_persist -> >=', 'loaded_count > self._max_persist:', 'loaded_count >= self._max_persist:', 'sem'),
    ('b02', 'evict the NEWEST label: next(iter(d)) -> next(reversed(d))', 'label_remove = next(iter(self._last_accessed))',
     'label_remove = next(reversed(self._last_accessed))', 'sem'),
    ('b03', 'cache hit: labels touched in reverse order', 'for label in labels: # update LRU position', 'for label in reversed(labels): # update LRU position', 'sem'),
    ('b04', 'cache hit: the LRU is not updated at all', HIT, '            for label in labels: # update LRU position\n                pass\n            return\n', 'sem'),
    ('b05', 'cache hit: d[label] = None instead of d[label] = d.pop(label, None) (no move to the end)', HIT,
     '            for label in labels: # update LRU position\n                self._last_accessed[label] = None\n            return\n', 'sem'),
    ('b06', '_loaded_all never set again (assignment removed)', TAIL, '                    own_index=True,\n                    )\n', 'sem'),
    ('b07', '_loaded_all = self._loaded.all() -> = True', TAIL, '                    own_index=True,\n                    )\n            self._loaded_all = True\n', 'sem'),
    ('b08', 'load = ... not self._loaded[key].all() -> self._loaded[key].all()', 'else not self._loaded[key].all()', 'else self._loaded[key].all()', 'sem'),
    ('b09', 'early return: not load and not max_persist_active -> or', 'if not load and not max_persist_active:', 'if not load or not max_persist_active:', 'sem'),
    ('b10', 'hit test operands swapped (both pure)', 'if not load and max_persist_active: # must update LRU position',
     'if max_persist_active and not load: # must update LRU position', 'equiv'),
    ('b11', 'LRU touch BEFORE the store read (the defect repaired by f8d3a4f)', READ + '\n' + TOUCH2, TOUCH2 + '\n' + READ, 'sem'),
    ('b12', 'if not self._loaded[idx] -> if self._loaded[idx]', 'if not self._loaded[idx]:', 'if self._loaded[idx]:', 'sem'),
    ('b13', 'self._loaded[idx] = True -> False', 'self._loaded[idx] = True # update loaded status', 'self._loaded[idx] = False # update loaded status', 'sem'),
    ('b14', 'loaded_count += 1 -> += 2', 'loaded_count += 1', 'loaded_count += 2', 'sem'),
    ('b15', 'loaded_count -= 1 -> -= 2', 'loaded_count -= 1', 'loaded_count -= 2', 'sem'),
    ('b16', 'evicted flag: self._loaded[idx_remove] = False -> True', 'self._loaded[idx_remove] = False', 'self._loaded[idx_remove] = True', 'sem'),
    ('b17', 'evicted cell keeps a frame: array[idx_remove] = FrameDeferred -> frame', 'array[idx_remove] = FrameDeferred', 'array[idx_remove] = frame', 'sem'),
    ('b18', 'the frame read is not stored (array[idx] = frame removed)', '                    array[idx] = frame\n', '                    pass\n', 'sem'),
    ('b19', 'the evicted label stays in the LRU (del removed)', '                    del self._last_accessed[label_remove]\n', '                    pass\n', 'sem'),
    ('b20', 'the position evicted is the one just loaded: idx_remove = idx', 'idx_remove = index._loc_to_iloc(label_remove)', 'idx_remove = idx', 'sem'),
    ('b21', 'labels handed to _store_reader: the loaded ones (is not FrameDeferred)', 'for label, f in targets.items() if f is FrameDeferred)',
     'for label, f in targets.items() if f is not FrameDeferred)', 'sem'),
    ('b22', 'element reader yields nothing: range(1) -> range(0)', 'for _ in  range(1))', 'for _ in  range(0))', 'sem'),
    ('b23', 'loaded_count starts at 0 instead of the number loaded', 'loaded_count = self._loaded.sum()', 'loaded_count = 0', 'sem'),
    ('b24', 'array is not a copy of the cells', 'array = self._series.values.copy() # not a deepcopy', 'array = self._series.values # not a deepcopy', 'sem'),
    ('b25', 'del d[k] -> d.pop(k) (same meaning)', 'del self._last_accessed[label_remove]', 'self._last_accessed.pop(label_remove)', 'equiv'),
    ('b26', 'comparison written the other way round (same meaning)', 'loaded_count > self._max_persist:', 'self._max_persist < loaded_count:', 'equiv'),
    ('b27', 'the new Series is built from the old cells', 'self._series = Series(array,', 'self._series = Series(self._series.values,', 'sem'),
    ('b28', 'store test inverted: if self._store is None -> is not None', 'if self._store is None:', 'if self._store is not None:', 'sem'),
    ('b29', 'LRU touch in the load loop also without max_persist', 'if max_persist_active: # update LRU position, after the read', 'if True: # update LRU position, after the read', 'sem'),
    ('b30', 'load loop visits the targets in reverse', 'for label, frame in targets_items:', 'for label, frame in reversed(list(targets_items)):', 'sem'),
    ('b31', 'labels to read chosen by the live flags instead of the snapshot (seeded change m-live-mask)', 'for label, f in targets.items() if f is FrameDeferred)',
     'for label, f in targets.items() if not self._loaded[index._loc_to_iloc(label)])', 'sem'),
    ('b32', 'eviction test before the flag update (block moved up)', None, None, 'sem'),
    ('b33', 'OrderedDict API on the plain dict: d.popitem(last=False)', EVICT, '                    label_remove, _ = self._last_accessed.popitem(last=False)\n', 'sem'),
    ('b35', 'the finally block removed: try / finally -> plain loop followed by the re-binding (the defect F96 again)', '        try:\n            for label, frame in targets_items:', '        if True:\n            for label, frame in targets_items:', 'sem'),
    ('b34', 'independent statements swapped: loaded_count initialised after the copy of the cells (same meaning)', None, None, 'equiv'),
]

MARK = ('                if not self._loaded[idx]:\n'
        '                    # as we are iterating from `targets`, we might be holding on to references of Frames that we already removed in `array`; in this case we do not need to `read`, but we still need to update the new array\n'
        '                    array[idx] = frame\n'
        '                    self._loaded[idx] = True # update loaded status\n'
        '                    if max_persist_active:\n'
        '                        loaded_count += 1\n')
EVICT_BLOCK = ('                if max_persist_active and loaded_count > self._max_persist:\n' + EVICT +
               '                    idx_remove = index._loc_to_iloc(label_remove)\n'
               '                    self._loaded[idx_remove] = False\n'
               '                    array[idx_remove] = FrameDeferred\n'
               '                    loaded_count -= 1\n')
COUNT = '        if max_persist_active:\n            loaded_count = self._loaded.sum()\n'
COPY = '        array = self._series.values.copy() # not a deepcopy\n'


def fill(m):
    if m[0] == 'b32':
        return m[:2] + (MARK + '\n' + EVICT_BLOCK, EVICT_BLOCK + '\n' + MARK) + m[4:]
    if m[0] == 'b34':
        return m[:2] + (COUNT + '\n' + COPY, COPY + COUNT + '\n') + m[4:]
    return m


MUTATIONS = [fill(m) for m in MUTATIONS]

GRID_SCRIPT = r'''
import json, sys, random
sys.path.insert(0, sys.argv[1] + '/harness')
from sfv.props import c17_busgen as b
out = []
cases = list(b.boundary_cases()) + list(b.exhaustive_cases())
rng = random.Random('selftest-bus')
cases += [b.rand_case(rng, store='stub') for _ in range(4000)]
for c in cases:
    try:
        out.append(b.real_run(c))
    except Exception as ex:
        out.append(type(ex).__name__)
print(json.dumps(out, default=str))
'''

if __name__ == '__main__':
    sys.exit(st.main(MUTATIONS, rel='static_frame/core/bus.py', tool='py2lean_bus.py', genfile='Bus.lean',
                     files=['BridgeBus.lean', os.path.join('Props', 'C17Gen.lean')],
                     imports=['SFModel.BusSem', 'SFModel.BusLemmas', 'SFModel.Props.C17'], grid_script=GRID_SCRIPT, prop='C17',
                     fn_name='_update_series_cache_iloc'))
