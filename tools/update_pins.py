#!/venv/bin/python
"""Rewrite harness/pins.json from /repo's committed state (run after every `fix:` commit in /repo).
Refuses to pin a dirty working tree: the pins describe what the models were validated against."""
import os, subprocess, sys
VERIF = os.path.dirname(os.path.dirname(os.path.abspath(__file__)))
sys.path.insert(0, os.path.join(VERIF, 'harness'))
from sfv import pins
repo = sys.argv[1] if len(sys.argv) > 1 else '/repo'
dirty = subprocess.run(['git', '-C', repo, 'status', '--porcelain', '--', 'static_frame'], capture_output=True, text=True).stdout.strip()
if dirty and '--force' not in sys.argv:
    print('refusing: /repo has uncommitted changes under static_frame/\n' + dirty)
    sys.exit(1)
d = pins.write(repo)
print(f'pinned {len(d["files"])} files')
